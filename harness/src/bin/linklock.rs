//! LinkLock.tla, spec -> impl: the schedule on which a link that kept its buffer locked across the blocking send into the
//! router's event channel would deadlock with the router (TLC's counterexample for HoldAcrossSend = TRUE) is executed on
//! the real code: the event channel is filled with DeviceData events of link A (the router is not running), a thread calls
//! the blocking LinkTx::publish of A (it now waits for a free slot), then the router handles one event - which locks A's
//! buffer. LinkLock.tla (HoldAcrossSend = FALSE, deadlock-free) says both complete.
//! usage: linklock <rounds> <out.ndjson>    one record per round: {"cap":..,"router_step_done":bool,"publish_done":bool,"ms":..}
use rumqttd::verif::{self, Finish, LinkOptions};
use rumqttd::{Router, RouterConfig};
use serde_json::json;
use std::io::Write;
use std::sync::mpsc;
use std::time::{Duration, Instant};

fn main() {
    let a: Vec<String> = std::env::args().collect();
    let rounds: usize = a[1].parse().unwrap();
    let mut f = std::fs::File::create(&a[2]).unwrap();
    let mut bad = 0;
    for round in 0..rounds {
        let config = RouterConfig { max_connections: 10, max_outgoing_packet_count: 50, max_segment_size: 1024 * 1024, max_segment_count: 10,
            custom_segment: None, initialized_filters: None, shared_subscriptions_strategy: Default::default() };
        let mut router = Router::new(0, config);
        let tx = router.verif_link();
        let p = verif::begin_link(tx.clone(), LinkOptions { client_id: "a".into(), clean: true, last_will: None, last_will_properties: None, dynamic_filters: false, topic_alias_max: 0 }).unwrap();
        for _ in 0..20 { if router.verif_pending_events() > 0 { router.verif_step_event(); } else { router.verif_consume(); } }
        let (mut ltx, lrx) = match p.finish() { Finish::Up(t, r, _) => (t, r), _ => panic!("harness: link not accepted") };
        let id = lrx.id();
        // fill the event channel (the router thread is "slow": nobody receives)
        let mut cap = 0usize;
        while verif::notify(&tx, id) { cap += 1; if cap > 100_000 { break; } }
        let t0 = Instant::now();
        let (ptx, prx) = mpsc::channel();
        let pubs = 1 + round % 3;
        std::thread::spawn(move || {
            for k in 0..pubs { let _ = ltx.publish("a/b", k.to_string()); }
            let _ = ptx.send(());
            std::thread::sleep(Duration::from_secs(30)); // keep the link alive
        });
        // let the publishing thread reach the blocking send
        std::thread::sleep(Duration::from_millis(150));
        let (rtx, rrx) = mpsc::channel();
        std::thread::spawn(move || {
            // the router handles events until the publisher got all its slots
            for _ in 0..(pubs + 2) { router.verif_step_event(); }
            let _ = rtx.send(());
            std::thread::sleep(Duration::from_secs(30));
            drop(router);
        });
        let router_done = rrx.recv_timeout(Duration::from_secs(15)).is_ok();
        let publish_done = prx.recv_timeout(Duration::from_secs(if router_done { 15 } else { 1 })).is_ok();
        writeln!(f, "{}", json!({"round": round, "cap": cap, "publishes": pubs, "router_step_done": router_done, "publish_done": publish_done, "ms": t0.elapsed().as_millis() as u64})).unwrap();
        if !(router_done && publish_done) { bad += 1; break; }   // the threads are stuck for good: no further rounds in this process
        drop(lrx);
    }
    f.flush().unwrap();
    println!("{}", json!({"rounds": rounds, "deadlocks": bad}));
    std::process::exit(0);
}
