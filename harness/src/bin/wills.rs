//! C16 end to end: every row of the decision table of Will.tla through the real `remote()` (server/broker.rs) with a real
//! router thread over in-memory streams. usage: wills <rows.ndjson> <results.ndjson>
//! row = {"row": {will, wq, end, prior, v}, "live": n, "late": n, "prior": n}
//! Per row: a fresh router; subscriber S on w/# (QoS 1, MQTT 3.1.1); optionally an earlier connection of client id "w" with its
//! own will, dropped (its will must be seen once); the connection under test under client id "w" (protocol version v), with
//! or without a will, ended as the row says; what S sees; then a late subscriber L on w/# and what it gets as retained.
use bytes::BytesMut;
use rumqttd::protocol::v4::V4;
use rumqttd::protocol::v5::V5;
use rumqttd::verif::{remote, WillHandlers};
use rumqttd::{ConnectionSettings, Router, RouterConfig, Strategy};
use serde_json::{json, Value};
use std::io::Write;
use std::sync::Arc;
use std::time::Duration;
use tokio::io::{AsyncReadExt, AsyncWriteExt, DuplexStream};

use rumqttc::v5::mqttbytes::v5 as c5;

fn settings() -> Arc<ConnectionSettings> {
    Arc::new(ConnectionSettings { connection_timeout_ms: 500, max_payload_size: 20480, max_inflight_count: 100, auth: None, external_auth: None, dynamic_filters: false })
}

fn q4(q: u64) -> rumqttc::QoS { if q == 0 { rumqttc::QoS::AtMostOnce } else { rumqttc::QoS::AtLeastOnce } }
fn q5(q: u64) -> rumqttc::v5::mqttbytes::QoS { if q == 0 { rumqttc::v5::mqttbytes::QoS::AtMostOnce } else { rumqttc::v5::mqttbytes::QoS::AtLeastOnce } }

/// CONNECT of client id `id`; will = Some((payload, qos, retain)) registers a will on w/t
fn connect_bytes(v: u64, id: &str, keep_alive: u16, will: Option<(&str, u64, bool)>) -> Vec<u8> {
    let mut w = BytesMut::new();
    if v == 4 {
        let mut c = rumqttc::Connect::new(id);
        c.keep_alive = keep_alive;
        c.last_will = will.map(|(p, q, r)| rumqttc::LastWill::new("w/t", p, q4(q), r));
        rumqttc::Packet::Connect(c).write(&mut w, 1 << 20).unwrap();
    } else {
        let c = c5::Connect { keep_alive, client_id: id.into(), clean_start: true, properties: None };
        let lw = will.map(|(p, q, r)| c5::LastWill::new("w/t", p, q5(q), r, None));
        c5::Packet::Connect(c, lw, None).write(&mut w, None).unwrap();
    }
    w.to_vec()
}

/// reads 3.1.1 packets until `done(&packets)` holds or `ms` milliseconds passed; publishes as {topic,payload,retain}, others by name
async fn read4(s: &mut DuplexStream, buf: &mut BytesMut, ms: u64, done: impl Fn(&[Value]) -> bool) -> Vec<Value> {
    let mut out = Vec::new();
    let deadline = std::time::Instant::now() + Duration::from_millis(ms);
    loop {
        loop {
            match rumqttc::Packet::read(buf, 1 << 20) {
                Ok(rumqttc::Packet::Publish(p)) => out.push(json!({"t": "publish", "topic": p.topic, "payload": String::from_utf8_lossy(&p.payload), "retain": p.retain, "pkid": p.pkid})),
                Ok(other) => out.push(json!({"t": format!("{other:?}").split('(').next().unwrap_or("").to_lowercase()})),
                Err(rumqttc::mqttbytes::Error::InsufficientBytes(_)) => break,
                Err(e) => { out.push(json!({"t": "decode-error", "err": format!("{e:?}")})); return out; }
            }
        }
        if done(&out) || std::time::Instant::now() >= deadline { return out; }
        match tokio::time::timeout(Duration::from_millis(25), s.read_buf(buf)).await {
            Ok(Ok(0)) => { out.push(json!({"t": "closed"})); return out; }
            _ => {}
        }
    }
}

fn count(out: &[Value], payload: &str) -> usize { out.iter().filter(|x| x["t"] == "publish" && x["payload"] == payload).count() }
/// how long to wait for something that is expected (returns as soon as it is there) / for something that must not come
const EXPECT_MS: u64 = 5000;
const QUIET_MS: u64 = 700;

async fn ack4(s: &mut DuplexStream, got: &[Value]) {
    for p in got.iter().filter(|p| p["t"] == "publish" && p["pkid"].as_u64().unwrap_or(0) > 0) {
        let mut w = BytesMut::new();
        rumqttc::Packet::PubAck(rumqttc::PubAck::new(p["pkid"].as_u64().unwrap() as u16)).write(&mut w, 1 << 20).unwrap();
        s.write_all(&w).await.ok();
    }
}

fn spawn_remote(v: u64, tx: &flume::Sender<(usize, rumqttd::verif::Event)>, wh: &WillHandlers) -> (DuplexStream, tokio::task::JoinHandle<()>) {
    let (client, server) = tokio::io::duplex(1 << 16);
    let (txr, whc) = (tx.clone(), wh.clone());
    let task = if v == 4 { tokio::spawn(async move { remote(settings(), txr, Box::new(server), V4, whc).await }) }
               else { tokio::spawn(async move { remote(settings(), txr, Box::new(server), V5, whc).await }) };
    (client, task)
}

async fn subscriber(id: &str, tx: &flume::Sender<(usize, rumqttd::verif::Event)>, wh: &WillHandlers, problems: &mut Vec<String>, expect_retained: usize) -> (DuplexStream, BytesMut, tokio::task::JoinHandle<()>, Vec<Value>) {
    let (mut c, t) = spawn_remote(4, tx, wh);
    let mut b = BytesMut::new();
    c.write_all(&connect_bytes(4, id, 30, None)).await.unwrap();
    let got = read4(&mut c, &mut b, EXPECT_MS, |o| !o.is_empty()).await;
    if got.first().map_or(true, |p| p["t"] != "connack") { problems.push(format!("{id}: no connack: {got:?}")); }
    let mut w = BytesMut::new();
    let mut s = rumqttc::Subscribe::new("w/#", rumqttc::QoS::AtLeastOnce);
    s.pkid = 1;
    rumqttc::Packet::Subscribe(s).write(&mut w, 1 << 20).unwrap();
    c.write_all(&w).await.unwrap();
    // the SUBACK, then for a short while whatever is replayed as retained
    let mut got = read4(&mut c, &mut b, EXPECT_MS, |o| o.iter().any(|p| p["t"] == "suback")).await;
    if !got.iter().any(|p| p["t"] == "suback") { problems.push(format!("{id}: no suback: {got:?}")); }
    let want_retained = expect_retained;
    got.extend(read4(&mut c, &mut b, if want_retained > 0 { EXPECT_MS } else { QUIET_MS / 2 }, |o| want_retained > 0 && count(o, "will") >= want_retained).await);
    if want_retained > 0 { got.extend(read4(&mut c, &mut b, QUIET_MS / 3, |_| false).await); }
    ack4(&mut c, &got).await;
    (c, b, t, got)
}

async fn run(rec: Value) -> Value {
    let row = &rec["row"];
    let v = row["v"].as_u64().unwrap();
    let config = RouterConfig { max_connections: 10, max_outgoing_packet_count: 10, max_segment_size: 100 * 1024, max_segment_count: 10, custom_segment: None,
        initialized_filters: None, shared_subscriptions_strategy: Strategy::RoundRobin };
    let tx = Router::new(0, config).spawn();
    let wh = WillHandlers::default();
    let mut problems: Vec<String> = Vec::new();
    let (mut s, mut sb, st, _) = subscriber("sub", &tx, &wh, &mut problems, 0).await;
    // earlier connection of the same client id with a will of its own, dropped
    let mut prior_seen = 0;
    if row["prior"] == "fired" {
        let (mut p, pt) = spawn_remote(4, &tx, &wh);
        let mut pb = BytesMut::new();
        p.write_all(&connect_bytes(4, "w", 30, Some(("prior", 0, false)))).await.unwrap();
        let got = read4(&mut p, &mut pb, EXPECT_MS, |o| !o.is_empty()).await;
        if got.first().map_or(true, |x| x["t"] != "connack") { problems.push(format!("prior: no connack: {got:?}")); }
        drop(p);
        let mut got = read4(&mut s, &mut sb, EXPECT_MS, |o| count(o, "prior") >= 1).await;
        got.extend(read4(&mut s, &mut sb, QUIET_MS / 3, |_| false).await);
        ack4(&mut s, &got).await;
        prior_seen += got.iter().filter(|x| x["t"] == "publish" && x["payload"] == "prior").count();
        pt.abort();
    }
    // the connection under test
    let will = match row["will"].as_str().unwrap() { "none" => None, "plain" => Some(("will", row["wq"].as_u64().unwrap(), false)), _ => Some(("will", row["wq"].as_u64().unwrap(), true)) };
    let end = row["end"].as_str().unwrap();
    let (mut c, ct) = spawn_remote(v, &tx, &wh);
    let mut cb = BytesMut::new();
    c.write_all(&connect_bytes(v, "w", if end == "keepalive" { 1 } else { 30 }, will)).await.unwrap();
    let mut connack = vec![0u8; 4];
    if tokio::time::timeout(Duration::from_millis(EXPECT_MS), c.read_exact(&mut connack)).await.is_err() || connack[0] != 0x20 { problems.push(format!("candidate: no connack {connack:?}")); }
    let _ = &mut cb;
    match end {
        "drop" => drop(c),
        "badack" => { c.write_all(&[0x40, 0x02, 0x00, 0x4D]).await.ok(); tokio::time::sleep(Duration::from_millis(150)).await; drop(c); }
        "disconnect_props" if v == 5 => { c.write_all(&[0xE0, 0x08, 0x00, 0x06, 0x1F, 0x00, 0x03, b'b', b'y', b'e']).await.ok(); tokio::time::sleep(Duration::from_millis(100)).await; drop(c); }
        "disconnect" | "disconnect_props" => { c.write_all(&[0xE0, 0x00]).await.ok(); tokio::time::sleep(Duration::from_millis(100)).await; drop(c); }
        _ => { tokio::time::sleep(Duration::from_millis(2300)).await; drop(c); }      // silent for more than 1.5 keep-alive intervals
    }
    let want_live = rec["live"].as_u64().unwrap() as usize;
    let mut got = read4(&mut s, &mut sb, if want_live > 0 { EXPECT_MS } else { QUIET_MS }, |o| want_live > 0 && count(o, "will") >= want_live).await;
    if want_live > 0 { got.extend(read4(&mut s, &mut sb, QUIET_MS / 2, |_| false).await); }     // ... and not a second time
    ack4(&mut s, &got).await;
    let wills: Vec<&Value> = got.iter().filter(|x| x["t"] == "publish" && x["payload"] == "will").collect();
    prior_seen += got.iter().filter(|x| x["t"] == "publish" && x["payload"] == "prior").count();
    let live = wills.len() as u64;
    if live != rec["live"].as_u64().unwrap() { problems.push(format!("subscriber saw the will {live} time(s), Will.tla says {}: {got:?}", rec["live"])); }
    for w in &wills {
        if w["topic"] != "w/t" { problems.push(format!("will topic {}", w["topic"])); }
        if w["retain"] == true { problems.push("live forward of the will flagged retained".into()); }
    }
    if prior_seen as u64 != rec["prior"].as_u64().unwrap() { problems.push(format!("the earlier connection's will was seen {prior_seen} time(s), Will.tla says {}", rec["prior"])); }
    if got.iter().any(|x| x["t"] == "closed") { problems.push("the subscriber's connection was closed".into()); }
    // late subscriber: retained copy
    let (l, _lb, lt, lgot) = subscriber("late", &tx, &wh, &mut problems, rec["late"].as_u64().unwrap() as usize).await;
    let late = lgot.iter().filter(|x| x["t"] == "publish" && x["payload"] == "will").count() as u64;
    if late != rec["late"].as_u64().unwrap() { problems.push(format!("late subscriber got the will {late} time(s), Will.tla says {}: {lgot:?}", rec["late"])); }
    for w in lgot.iter().filter(|x| x["t"] == "publish" && x["payload"] == "will") {
        if w["retain"] != true { problems.push("retained will replayed without the retain flag".into()); }
    }
    drop(l); st.abort(); ct.abort(); lt.abort();
    json!({"row": row, "ok": problems.is_empty(), "problems": problems, "live": live, "late": late, "prior": prior_seen})
}

#[tokio::main(flavor = "multi_thread", worker_threads = 8)]
async fn main() {
    std::panic::set_hook(Box::new(|_| {})); // a panicking connection task is observed through its effects
    let a: Vec<String> = std::env::args().collect();
    let text = std::fs::read_to_string(&a[1]).expect("rows");
    let mut f = std::io::BufWriter::new(std::fs::File::create(&a[2]).unwrap());
    let mut hs = Vec::new();
    for line in text.lines().filter(|l| !l.trim().is_empty()) {
        let rec: Value = serde_json::from_str(line).unwrap();
        hs.push(tokio::spawn(run(rec)));
        if hs.len() % 16 == 0 { tokio::time::sleep(Duration::from_millis(150)).await; }
    }
    let (mut n, mut bad) = (0, Vec::new());
    for h in hs {
        let r = match h.await { Ok(r) => r, Err(e) => json!({"ok": false, "problems": [format!("task panicked: {e}")]}) };
        n += 1;
        if !r["ok"].as_bool().unwrap_or(false) && bad.len() < 10 { bad.push(r.clone()); }
        writeln!(f, "{}", r).unwrap();
    }
    f.flush().unwrap();
    println!("{}", json!({"rows": n, "failed": bad.len(), "first_failed": bad}));
    std::process::exit(0);
}
