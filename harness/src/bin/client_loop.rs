//! impl -> spec traces of the real rumqttc EventLoop (v4 and v5) over an in-memory transport under paused time.
//! usage: client_loop <version 4|5> <N> <scripts.ndjson> <traces-out.ndjson>
//! A script is a JSON array of stimuli:
//!   {"op":"connect","sp":bool,"rm":u8}   poll() while disconnected; the scripted broker answers CONNACK
//!   {"op":"user","pk":{t,id,q,m}}        the user issues a request (try_publish / try_subscribe)
//!   {"op":"broker","pk":{...}}           the broker sends a packet
//!   {"op":"poll"}                        one I/O turn of poll() plus draining of the queued events
//!   {"op":"fail"}                        the broker end of the connection is dropped
//! One NDJSON event is recorded per stimulus that the specification has an action for.
use bytes::BytesMut;
use serde_json::{json, Value};
use std::cell::RefCell;
use std::collections::VecDeque;
use std::io::Write;
use std::rc::Rc;
use std::time::Duration;
use tokio::io::{AsyncReadExt, AsyncWriteExt, DuplexStream};
use vharness::client::*;

type Queue = Rc<RefCell<VecDeque<DuplexStream>>>;

macro_rules! driver {
    ($name:ident, $modv:ident, $opts:expr, $client:ty, $eventloop:ty, $read:expr, $write:expr, $connack:expr, $user:expr) => {
        async fn $name(n: u16, manual: bool, throttle_ms: u64, script: &[Value], queue: Queue, out: &mut Vec<Value>) {
            let (client, mut el): ($client, $eventloop) = $opts(n, manual, throttle_ms);
            let mut broker: Option<DuplexStream> = None;
            let mut rbuf = BytesMut::new();
            let mut up = false;
            for st in script {
                let mut op = st["op"].as_str().unwrap();
                // the real loop may have taken another branch than the model the script was generated from
                if op == "connect" && up {
                    op = "poll";
                }
                if (op == "poll" || op == "broker" || op == "fail") && !up {
                    continue;
                }
                match op {
                    "connect" => {
                        let (c_end, mut b_end) = tokio::io::duplex(1 << 20);
                        queue.borrow_mut().push_back(c_end);
                        rbuf.clear();
                        let sp = st["sp"].as_bool().unwrap();
                        let rm = st["rm"].as_u64().unwrap_or(0) as u8;
                        let hs = async {
                            // read the CONNECT, answer CONNACK
                            let mut buf = BytesMut::new();
                            loop {
                                if $read(&mut buf).is_some() {
                                    break;
                                }
                                if b_end.read_buf(&mut buf).await.unwrap_or(0) == 0 {
                                    return;
                                }
                            }
                            let mut w = BytesMut::new();
                            $connack(sp, rm, &mut w);
                            let _ = b_end.write_all(&w).await;
                        };
                        let (r, _) = tokio::join!(el.poll(), hs);
                        let (evs, err) = match r {
                            Ok(e) => (vec![$modv::event(&e)], "none".to_string()),
                            Err(e) => (vec![], format!("{e:?}").chars().take(60).collect()),
                        };
                        broker = Some(b_end);
                        up = err == "none";
                        out.push(json!({"ev": "connect", "sp": sp, "rm": rm, "evs": evs, "err": err,
                            "pending": el.pending.iter().map($modv::unrequest).collect::<Vec<_>>(), "vis": el.state.vis()}));
                    }
                    "user" => {
                        let p: Pk = serde_json::from_value(st["pk"].clone()).unwrap();
                        let ok: bool = $user(&client, &p);
                        out.push(json!({"ev": "user", "pk": p, "ok": ok}));
                    }
                    "broker" => {
                        let p: Pk = serde_json::from_value(st["pk"].clone()).unwrap();
                        let mut w = BytesMut::new();
                        $write(&p, &mut w);
                        let ok = match broker.as_mut() {
                            Some(b) => b.write_all(&w).await.is_ok(),
                            None => false,
                        };
                        out.push(json!({"ev": "broker", "pk": p, "ok": ok}));
                    }
                    "fail" => {
                        broker = None;
                        out.push(json!({"ev": "fail"}));
                    }
                    "poll" => {
                        // queued events first (no I/O happens while the queue is non-empty)
                        let mut evs = Vec::new();
                        let mut err = "none".to_string();
                        let had_queued = !el.state.events.is_empty();
                        loop {
                            match tokio::time::timeout(Duration::from_secs(3600), el.poll()).await {
                                Ok(Ok(e)) => evs.push($modv::event(&e)),
                                Ok(Err(e)) => {
                                    err = $modv::loop_err(&e);
                                    // events queued before the error are still handed to the user
                                    evs.extend(el.state.events.drain(..).map(|e| $modv::event(&e)));
                                    break;
                                }
                                Err(_) => {
                                    err = "HARNESS-TIMEOUT".into();
                                    break;
                                }
                            }
                            if el.state.events.is_empty() {
                                break;
                            }
                        }
                        // what reached the broker
                        let mut wire: Vec<Pk> = Vec::new();
                        let mut closed = false;
                        if let Some(b) = broker.as_mut() {
                            loop {
                                match tokio::time::timeout(Duration::ZERO, b.read_buf(&mut rbuf)).await {
                                    Ok(Ok(0)) => {
                                        closed = true;
                                        break;
                                    }
                                    Ok(Ok(_)) => continue,
                                    _ => break,
                                }
                            }
                            while let Some(p) = $read(&mut rbuf) {
                                wire.push(p);
                            }
                        }
                        if closed {
                            broker = None;
                        }
                        if err != "none" {
                            up = false;
                        }
                        out.push(json!({"ev": "step", "evs": evs, "wire": wire, "err": err,
                            "pending": el.pending.iter().map($modv::unrequest).collect::<Vec<_>>(), "vis": el.state.vis(),
                            "queued": had_queued}));
                        if err == "HARNESS-TIMEOUT" {
                            return;
                        }
                    }
                    _ => panic!("harness: op"),
                }
            }
        }
    };
}

fn v4_opts(n: u16, manual: bool, throttle_ms: u64) -> (rumqttc::AsyncClient, rumqttc::EventLoop) {
    let mut o = rumqttc::MqttOptions::new("c", "localhost", 1883);
    o.set_pending_throttle(Duration::from_millis(throttle_ms));
    o.set_inflight(n).set_keep_alive(Duration::from_secs(5)).set_clean_session(false).set_manual_acks(manual);
    rumqttc::AsyncClient::new(o, 10)
}
fn v4_read(buf: &mut BytesMut) -> Option<Pk> {
    rumqttc::Packet::read(buf, 1 << 20).ok().map(|p| v4::unpacket(&p))
}
fn v4_write(p: &Pk, w: &mut BytesMut) {
    v4::packet(p).write(w, 1 << 20).unwrap();
}
fn v4_connack(sp: bool, _rm: u8, w: &mut BytesMut) {
    rumqttc::Packet::ConnAck(rumqttc::ConnAck::new(rumqttc::ConnectReturnCode::Success, sp)).write(w, 1 << 20).unwrap();
}
fn v4_user(c: &rumqttc::AsyncClient, p: &Pk) -> bool {
    match p.t.as_str() {
        "publish" => c.try_publish("t", v4::qos(p.q), false, p.m.to_string().into_bytes()).is_ok(),
        "subscribe" => c.try_subscribe("a", rumqttc::QoS::AtMostOnce).is_ok(),
        _ => false,
    }
}

fn v5_opts(n: u16, manual: bool, throttle_ms: u64) -> (rumqttc::v5::AsyncClient, rumqttc::v5::EventLoop) {
    let mut o = rumqttc::v5::MqttOptions::new("c", "localhost", 1883);
    o.set_pending_throttle(Duration::from_millis(throttle_ms));
    o.set_outgoing_inflight_upper_limit(n).set_keep_alive(Duration::from_secs(5)).set_clean_start(false).set_manual_acks(manual);
    rumqttc::v5::AsyncClient::new(o, 10)
}
fn v5_read(buf: &mut BytesMut) -> Option<Pk> {
    rumqttc::v5::mqttbytes::v5::Packet::read(buf, None).ok().map(|p| v5::unpacket(&p))
}
fn v5_write(p: &Pk, w: &mut BytesMut) {
    v5::packet(p).write(w, None).unwrap();
}
fn v5_connack(sp: bool, rm: u8, w: &mut BytesMut) {
    let mut p = v5::packet(&pk("connack", 0, rm, 0));
    if let rumqttc::v5::mqttbytes::v5::Packet::ConnAck(c) = &mut p {
        c.session_present = sp;
    }
    p.write(w, None).unwrap();
}
fn v5_user(c: &rumqttc::v5::AsyncClient, p: &Pk) -> bool {
    match p.t.as_str() {
        "publish" => c.try_publish("t", v5::qos(p.q), false, p.m.to_string().into_bytes()).is_ok(),
        "subscribe" => c.try_subscribe("a", rumqttc::v5::mqttbytes::QoS::AtMostOnce).is_ok(),
        _ => false,
    }
}

driver!(drive_v4, v4, v4_opts, rumqttc::AsyncClient, rumqttc::EventLoop, v4_read, v4_write, v4_connack, v4_user);
driver!(drive_v5, v5, v5_opts, rumqttc::v5::AsyncClient, rumqttc::v5::EventLoop, v5_read, v5_write, v5_connack, v5_user);

#[tokio::main(flavor = "current_thread", start_paused = true)]
async fn main() {
    let a: Vec<String> = std::env::args().collect();
    let (version, n) = (a[1].parse::<u32>().unwrap(), a[2].parse::<u16>().unwrap());
    let manual = a.get(5).map_or(false, |x| x == "1");
    let throttle_ms: u64 = a.get(6).and_then(|x| x.parse().ok()).unwrap_or(0);
    let text = std::fs::read_to_string(&a[3]).unwrap();
    let mut f = std::io::BufWriter::new(std::fs::File::create(&a[4]).unwrap());
    let queue: Queue = Rc::new(RefCell::new(VecDeque::new()));
    let q2 = queue.clone();
    rumqttc::verif::set_connector(Some(Box::new(move || q2.borrow_mut().pop_front())));
    let (mut scripts, mut events) = (0u64, 0u64);
    for line in text.lines().filter(|l| !l.trim().is_empty()) {
        let script: Vec<Value> = serde_json::from_str(line).unwrap();
        let mut out: Vec<Value> = Vec::new();
        out.push(json!({"ev": "reset", "version": version, "n": n, "manual": manual}));
        if version == 4 {
            drive_v4(n, manual, throttle_ms, &script, queue.clone(), &mut out).await;
        } else {
            drive_v5(n, manual, throttle_ms, &script, queue.clone(), &mut out).await;
        }
        queue.borrow_mut().clear();
        scripts += 1;
        events += out.len() as u64;
        for e in out {
            writeln!(f, "{}", e).unwrap();
        }
    }
    f.flush().unwrap();
    println!("{}", json!({"scripts": scripts, "events": events}));
}
