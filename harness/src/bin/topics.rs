//! C12 conformance: spec-generated vectors (MC_MqttTopic) against the three copies of the
//! topic functions. usage: topics <short.ndjson> <long.ndjson> <fail-out.json>
use serde_json::{json, Value};
use std::collections::{HashMap, HashSet};
use vharness::util::{guarded, quiet_panics};

type MatchFn = fn(&str, &str) -> bool;
type ValidFn = fn(&str) -> bool;

fn main() {
    quiet_panics();
    let args: Vec<String> = std::env::args().collect();
    let short = std::fs::read_to_string(&args[1]).expect("short vectors");
    let long = std::fs::read_to_string(&args[2]).expect("long vectors");
    let copies: [(&str, MatchFn, ValidFn, ValidFn, ValidFn); 3] = [
        ("rumqttc", rumqttc::matches, rumqttc::valid_topic, rumqttc::valid_filter, rumqttc::has_wildcards),
        (
            "rumqttc::v5",
            rumqttc::v5::mqttbytes::matches,
            rumqttc::v5::mqttbytes::valid_topic,
            rumqttc::v5::mqttbytes::valid_filter,
            rumqttc::v5::mqttbytes::has_wildcards,
        ),
        (
            "rumqttd",
            rumqttd::protocol::matches,
            rumqttd::protocol::valid_topic,
            rumqttd::protocol::valid_filter,
            rumqttd::protocol::has_wildcards,
        ),
    ];
    let subs = ["é", "€", "😀"];
    let mut evaluations: u64 = 0;
    let mut nontrivial: HashSet<(String, String)> = HashSet::new();
    let mut violations: Vec<Value> = Vec::new();
    let mut samples: Vec<Value> = Vec::new();
    let fail = |what: &str, copy: &str, t: &str, f: &str, got: Value, want: Value, violations: &mut Vec<Value>| {
        if violations.len() < 50 {
            violations.push(json!({"what": what, "copy": copy, "topic": t, "filter": f, "got": got, "want": want}));
        }
    };

    let recs: Vec<Value> = short.lines().filter(|l| !l.trim().is_empty()).map(|l| serde_json::from_str(l).unwrap()).collect();
    let strs: Vec<&str> = recs.iter().map(|r| r["s"].as_str().unwrap()).collect();
    let mut mset: HashMap<&str, HashSet<&str>> = HashMap::new();
    for r in &recs {
        mset.insert(r["s"].as_str().unwrap(), r["m"].as_array().unwrap().iter().map(|x| x.as_str().unwrap()).collect());
    }
    for sub in subs {
        // validators on every string
        for r in &recs {
            let s = r["s"].as_str().unwrap().replace('U', sub);
            for (name, _, vt, vf, hw) in copies.iter() {
                for (what, fun, want) in [("valid_topic", vt, &r["vt"]), ("valid_filter", vf, &r["vf"]), ("has_wildcards", hw, &r["hw"])] {
                    evaluations += 1;
                    match guarded(|| fun(&s)) {
                        Ok(got) if got == want.as_bool().unwrap() => {}
                        Ok(got) => fail(what, name, &s, "", json!(got), want.clone(), &mut violations),
                        Err(p) => fail(what, name, &s, "", json!({"panic": p}), want.clone(), &mut violations),
                    }
                }
            }
        }
        // matches on every pair
        for (i, r) in recs.iter().enumerate() {
            let t0 = strs[i];
            let t = t0.replace('U', sub);
            let vt = r["vt"].as_bool().unwrap();
            for (j, q) in recs.iter().enumerate() {
                let f0 = strs[j];
                let f = f0.replace('U', sub);
                let valid = vt && q["vf"].as_bool().unwrap();
                let want = mset[t0].contains(f0);
                let mut answers: Vec<Result<bool, String>> = Vec::with_capacity(3);
                for (_, m, _, _, _) in copies.iter() {
                    evaluations += 1;
                    answers.push(guarded(|| m(&t, &f)));
                }
                for (k, a) in answers.iter().enumerate() {
                    match a {
                        Err(p) => fail("matches", copies[k].0, &t, &f, json!({"panic": p}), json!(if valid { Some(want) } else { None }), &mut violations),
                        Ok(got) if valid && *got != want => fail("matches", copies[k].0, &t, &f, json!(got), json!(want), &mut violations),
                        Ok(got) => {
                            if let Ok(first) = &answers[0] {
                                if first != got {
                                    fail("copies-disagree", copies[k].0, &t, &f, json!(got), json!(first), &mut violations);
                                }
                            }
                        }
                    }
                }
                if valid && (want || f0.contains('+') || f0.contains('#') || t0.starts_with('$')) {
                    nontrivial.insert((t.clone(), f.clone()));
                    if samples.len() < 6 && want && f0.contains('+') && t0.contains('U') {
                        samples.push(json!({"topic": t, "filter": f, "matches": want}));
                    }
                }
            }
        }
    }
    // random longer pairs
    for l in long.lines().filter(|l| !l.trim().is_empty()) {
        let r: Value = serde_json::from_str(l).unwrap();
        for sub in subs {
            let t = r["t"].as_str().unwrap().replace('U', sub);
            let f = r["f"].as_str().unwrap().replace('U', sub);
            let valid = r["vt"].as_bool().unwrap() && r["vf"].as_bool().unwrap();
            let want = r["m"].as_bool().unwrap();
            for (name, m, vt, vf, _) in copies.iter() {
                evaluations += 3;
                match guarded(|| (m(&t, &f), vt(&t), vf(&f))) {
                    Err(p) => fail("matches", name, &t, &f, json!({"panic": p}), json!(want), &mut violations),
                    Ok((gm, gvt, gvf)) => {
                        if valid && gm != want {
                            fail("matches", name, &t, &f, json!(gm), json!(want), &mut violations);
                        }
                        if gvt != r["vt"].as_bool().unwrap() {
                            fail("valid_topic", name, &t, "", json!(gvt), r["vt"].clone(), &mut violations);
                        }
                        if gvf != r["vf"].as_bool().unwrap() {
                            fail("valid_filter", name, &f, "", json!(gvf), r["vf"].clone(), &mut violations);
                        }
                    }
                }
            }
            if valid {
                nontrivial.insert((t.clone(), f.clone()));
                if samples.len() < 10 && want {
                    samples.push(json!({"topic": t, "filter": f, "matches": want}));
                }
            }
        }
    }
    if !violations.is_empty() {
        std::fs::write(&args[3], serde_json::to_string_pretty(&violations).unwrap()).unwrap();
    }
    println!(
        "{}",
        json!({"evaluations": evaluations, "distinct_nontrivial": nontrivial.len(), "violations": violations, "samples": samples,
               "strings": recs.len(), "long_pairs": long.lines().count()})
    );
}
