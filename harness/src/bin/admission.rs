//! C19 conformance: every row of the decision table of Admission.tla through the real `remote()` (server/broker.rs)
//! with a real router thread. usage: admission <rows.ndjson> <results.ndjson>
//! row = {"row": {listener, first, keep_alive, cid, clean, auth, login, full}, "want": "accept"|"errconnack"|"silent"}
//! For every row: a fresh router (max_connections so that `full` holds or not), a monitor link subscribed to '#',
//! the candidate connection over an in-memory duplex stream. Observed: what the candidate reads back (successful CONNACK,
//! error CONNACK, nothing) and whether a PUBLISH it sends afterwards reaches the monitor.
use bytes::BytesMut;
use rumqttd::protocol::v4::V4;
use rumqttd::protocol::v5::V5;
use rumqttd::verif::{remote, WillHandlers};
use rumqttd::{ConnectionSettings, Notification, Router, RouterConfig, Strategy};
use serde_json::{json, Value};
use std::collections::HashMap;
use std::io::Write;
use std::sync::Arc;
use std::time::{Duration, Instant};
use tokio::io::{AsyncReadExt, AsyncWriteExt};

fn cid_of(class: &str) -> String {
    match class {
        "plain" => "cand".into(),
        "empty" => "".into(),
        "plus" => "ca+nd".into(),
        "dollar" => "$cand".into(),
        "hash" => "cand#".into(),
        _ => "ca/nd".into(),
    }
}

fn first_bytes(row: &Value) -> Vec<u8> {
    let mut w = BytesMut::new();
    let ka = row["keep_alive"].as_u64().unwrap() as u16;
    let cid = cid_of(row["cid"].as_str().unwrap());
    let clean = row["clean"].as_bool().unwrap();
    let login = match row["login"].as_str().unwrap() {
        "absent" => None,
        "wrong" => Some(("user", "nope")),
        "prefix" => Some(("user", "sec")),
        "emptypw" => Some(("user", "")),
        _ => Some(("user", "secret")),
    };
    match row["first"].as_str().unwrap() {
        "connect4" => {
            let mut c = rumqttc::Connect::new(cid);
            c.keep_alive = ka;
            c.clean_session = clean;
            c.login = login.map(|(u, p)| rumqttc::Login::new(u, p));
            rumqttc::Packet::Connect(c).write(&mut w, 1 << 20).unwrap();
        }
        "connect5" => {
            use rumqttc::v5::mqttbytes::v5::{Connect, Login, Packet};
            let c = Connect { keep_alive: ka, client_id: cid, clean_start: clean, properties: None };
            Packet::Connect(c, None, login.map(|(u, p)| Login::new(u, p))).write(&mut w, None).unwrap();
        }
        "publish" => {
            rumqttc::Packet::Publish(rumqttc::Publish::new("adm/x", rumqttc::QoS::AtMostOnce, "early")).write(&mut w, 1 << 20).unwrap();
        }
        "pingreq" => w.extend_from_slice(&[0xC0, 0x00]),
        "garbage" => w.extend_from_slice(&[0xFF, 0x03, 0x01, 0x02, 0x03, 0x00, 0x00]),
        _ => {}
    }
    w.to_vec()
}

fn later_bytes(listener: u64) -> Vec<u8> {
    // SUBSCRIBE adm/# and PUBLISH adm/x "late" in the listener's protocol
    let mut w = BytesMut::new();
    if listener == 4 {
        let mut s = rumqttc::Subscribe::new("adm/#", rumqttc::QoS::AtMostOnce);
        s.pkid = 1;
        rumqttc::Packet::Subscribe(s).write(&mut w, 1 << 20).unwrap();
        rumqttc::Packet::Publish(rumqttc::Publish::new("adm/x", rumqttc::QoS::AtMostOnce, "late")).write(&mut w, 1 << 20).unwrap();
    } else {
        use rumqttc::v5::mqttbytes::v5::{Filter, Packet, Publish, Subscribe};
        use rumqttc::v5::mqttbytes::QoS;
        let mut s = Subscribe::new(Filter::new("adm/#", QoS::AtMostOnce), None);
        s.pkid = 1;
        Packet::Subscribe(s).write(&mut w, None).unwrap();
        Packet::Publish(Publish::new("adm/x", QoS::AtMostOnce, "late", None)).write(&mut w, None).unwrap();
    }
    w.to_vec()
}

async fn run_row(row: Value) -> Value {
    let r = &row["row"];
    let listener = r["listener"].as_u64().unwrap();
    let full = r["full"].as_bool().unwrap();
    let config = RouterConfig {
        max_connections: if full { 2 } else { 3 },
        max_outgoing_packet_count: 10,
        max_segment_size: 100 * 1024,
        max_segment_count: 10,
        custom_segment: None,
        initialized_filters: None,
        shared_subscriptions_strategy: Strategy::RoundRobin,
    };
    let router_tx = Router::new(0, config).spawn();
    // monitor and filler are local links (blocking build: the router thread answers)
    let tx2 = router_tx.clone();
    let (mut mon_tx, mut mon_rx, filler) = tokio::task::spawn_blocking(move || {
        let (t, r, _) = rumqttd::local::LinkBuilder::new("monitor", tx2.clone()).build().unwrap();
        let f = rumqttd::local::LinkBuilder::new("filler", tx2.clone()).build().unwrap();
        (t, r, f)
    }).await.unwrap();
    mon_tx.subscribe("#").unwrap();
    let mut settings = ConnectionSettings {
        connection_timeout_ms: 60,
        max_payload_size: 20480,
        max_inflight_count: 100,
        auth: None,
        external_auth: None,
        dynamic_filters: false,
    };
    match r["auth"].as_str().unwrap() {
        "static" => { let mut m = HashMap::new(); m.insert("user".to_string(), "secret".to_string()); settings.auth = Some(m); }
        "callback" => settings.set_auth_handler(|_cid: String, u: String, p: String| async move { u == "user" && p == "secret" }),
        _ => {}
    }
    let (mut client, server) = tokio::io::duplex(1 << 16);
    let wh = WillHandlers::default();
    let cfg = Arc::new(settings);
    let txr = router_tx.clone();
    // the first packet is in the stream before the connection task starts: the broker's connect timeout (60 ms here, so that the
    // "nothing" rows are quick) then cannot expire on a loaded machine before the packet is there
    let first = first_bytes(r);
    if !first.is_empty() { let _ = client.write_all(&first).await; }
    let task = if listener == 4 {
        tokio::spawn(async move { remote(cfg, txr, Box::new(server), V4, wh).await })
    } else {
        tokio::spawn(async move { remote(cfg, txr, Box::new(server), V5, wh).await })
    };
    // what comes back within the window
    let mut buf = BytesMut::new();
    // the window only bounds how long we look: long (with early exit) where the table expects an answer, so that a slow machine
    // cannot turn an expected CONNACK into "silent"; short where silence is expected
    let expect_answer = row["want"] != "silent";
    let deadline = Instant::now() + Duration::from_millis(if expect_answer { 5000 } else { 250 });
    let mut closed = false;
    let mut got: Option<(bool, u8)> = None; // (success, code byte)
    while Instant::now() < deadline && got.is_none() && !closed {
        match tokio::time::timeout(Duration::from_millis(20), client.read_buf(&mut buf)).await {
            Ok(Ok(0)) => closed = true,
            Ok(Ok(_)) => {
                if buf.len() >= 4 && buf[0] == 0x20 {
                    got = Some((buf[3] == 0, buf[3]));
                }
            }
            Ok(Err(_)) => closed = true,
            Err(_) => {}
        }
    }
    let observed = match got { Some((true, _)) => "accept", Some((false, _)) => "errconnack", None => "silent" };
    // afterwards: does anything the connection sends reach the routing core?
    let _ = client.write_all(&later_bytes(listener)).await;
    let mut reached = false;
    let stop = std::time::Instant::now() + Duration::from_millis(if observed == "accept" && row["want"] == "accept" { 5000 } else if observed == "accept" { 300 } else { 120 });
    let (mon_rx2, reached2) = tokio::task::spawn_blocking(move || {
        let mut reached = false;
        while std::time::Instant::now() < stop {
            match mon_rx.recv_deadline(stop) {
                Ok(Some(Notification::Forward(f))) => { if f.publish.topic.starts_with(b"adm/") { reached = true; break; } }
                Ok(_) => {}
                Err(_) => break,
            }
        }
        (mon_rx, reached)
    }).await.unwrap();
    reached |= reached2;
    drop(client);
    drop(mon_rx2);
    drop(mon_tx);
    drop(filler);
    task.abort();
    let want = row["want"].as_str().unwrap();
    let ok = observed == want && (reached == (want == "accept"));
    json!({"row": r, "want": want, "observed": observed, "code": got.map(|g| g.1), "reached_router": reached, "ok": ok})
}

#[tokio::main(flavor = "multi_thread", worker_threads = 12)]
async fn main() {
    let a: Vec<String> = std::env::args().collect();
    let text = std::fs::read_to_string(&a[1]).unwrap();
    let rows: Vec<Value> = text.lines().filter(|l| !l.trim().is_empty()).map(|l| serde_json::from_str(l).unwrap()).collect();
    let mut f = std::io::BufWriter::new(std::fs::File::create(&a[2]).unwrap());
    let sem = Arc::new(tokio::sync::Semaphore::new(48));
    let mut handles = Vec::new();
    for row in rows {
        let permit = sem.clone().acquire_owned().await.unwrap();
        handles.push(tokio::spawn(async move { let r = run_row(row).await; drop(permit); r }));
    }
    let (mut n, mut bad) = (0u64, Vec::new());
    for h in handles {
        let r = h.await.unwrap();
        n += 1;
        if !r["ok"].as_bool().unwrap() && bad.len() < 20 { bad.push(r.clone()); }
        writeln!(f, "{}", r).unwrap();
    }
    f.flush().unwrap();
    println!("{}", json!({"rows": n, "failed": bad.len(), "first_failed": bad}));
    std::process::exit(0);
}
