//! C13 conformance.
//!   commitlog replay <vectors.ndjson>   : spec-generated states (MC_CommitLog) replayed into CommitLog
//!   commitlog trace <seed> <n> <out>    : random append/read traces recorded for CommitLogTrace.tla
use rand::{rngs::StdRng, Rng, SeedableRng};
use rumqttd::verif::{CommitLog, Position, Storage};
use serde_json::{json, Value};
use std::collections::HashSet;
use std::io::Write;
use vharness::util::{guarded, quiet_panics};

#[derive(Clone, Debug)]
struct Entry {
    id: u64,
    size: usize,
}
impl Storage for Entry {
    fn size(&self) -> usize {
        self.size
    }
}

const UNIT: usize = 256; // spec size unit -> bytes (Cap = 4 units = the 1 KiB minimum segment size)

fn pos_json(p: &Position) -> (String, (u64, u64), (u64, u64)) {
    match p {
        Position::Next { start, end } => ("Next".into(), *start, *end),
        Position::Done { start, end } => ("Done".into(), *start, *end),
    }
}

fn read(log: &CommitLog<Entry>, c: (u64, u64), len: u64) -> Result<Value, String> {
    guarded(|| {
        let mut out = Vec::new();
        let r = log.readv(c, len, &mut out);
        match r {
            Ok(p) => {
                let (kind, start, end) = pos_json(&p);
                // every entry must carry its own offset: the tag's absolute offset is the entry's id
                let tags: Vec<Value> = out.iter().map(|(_e, o)| json!([o.0, o.1])).collect();
                let ids: Vec<u64> = out.iter().map(|(e, _)| e.id).collect();
                json!({"kind": kind, "start": [start.0, start.1], "end": [end.0, end.1], "out": tags, "ids": ids})
            }
            Err(e) => json!({"kind": "Err", "err": e.to_string()}),
        }
    })
}

fn replay(path: &str, suspects_path: &str) {
    let mut suspects = std::io::BufWriter::new(std::fs::File::create(suspects_path).unwrap());
    let mut n_suspects = 0u64;
    let text = std::fs::read_to_string(path).expect("vectors");
    let mut evaluations = 0u64;
    let mut distinct: HashSet<String> = HashSet::new();
    let mut violations: Vec<Value> = Vec::new();
    let mut samples: Vec<Value> = Vec::new();
    let mut stale_reads = 0u64;
    let mut multi_segment_reads = 0u64;
    let mut states = 0u64;
    for line in text.lines().filter(|l| !l.trim().is_empty()) {
        let v: Value = serde_json::from_str(line).unwrap();
        states += 1;
        let lim = v["lim"].as_u64().unwrap() as usize;
        let sizes: Vec<u64> = v["sizes"].as_array().unwrap().iter().map(|x| x.as_u64().unwrap()).collect();
        let built = guarded(|| {
            let mut log: CommitLog<Entry> = CommitLog::new(4 * UNIT, lim).unwrap();
            let mut rets = Vec::new();
            for (i, s) in sizes.iter().enumerate() {
                rets.push(log.append(Entry { id: i as u64, size: *s as usize * UNIT }));
            }
            (log, rets)
        });
        let mut state_bad = false;
        let (log, _rets) = match built {
            Ok(x) => x,
            Err(p) => {
                violations.push(json!({"what": "panic in append", "lim": lim, "sizes": sizes, "panic": p}));
                continue;
            }
        };
        // shape: head/tail, number of segments, next offset
        let (head, tail) = log._head_and_tail();
        let segs = v["segs"].as_array().unwrap();
        let want_next = {
            let last = segs.last().unwrap();
            (v["tail"].as_u64().unwrap(), last[0].as_u64().unwrap() + last[1].as_u64().unwrap())
        };
        if head != v["head"].as_u64().unwrap()
            || tail != v["tail"].as_u64().unwrap()
            || log.memory_segments_count() != segs.len()
            || log.next_offset() != want_next
            || log.memory_segments_count() > lim
        {
            violations.push(json!({"what": "retention/shape", "lim": lim, "sizes": sizes, "decide": "trace",
                "got": {"head": head, "tail": tail, "segments": log.memory_segments_count(), "next": [log.next_offset().0, log.next_offset().1]},
                "want": {"head": v["head"], "tail": v["tail"], "segs": v["segs"]}}));
            state_bad = true;
        }
        for (key, issued) in [("reads", true), ("fab", false)] {
            for r in v[key].as_array().unwrap() {
                let c = (r[0].as_u64().unwrap(), r[1].as_u64().unwrap());
                let len = r[2].as_u64().unwrap();
                let want = &r[3];
                evaluations += 1;
                let got = read(&log, c, len);
                let ok = match &got {
                    Err(_) => false,
                    Ok(g) => {
                        let same_out = g["out"] == want["out"];
                        // content: the entry returned under tag (s, a) is the a-th appended entry
                        let ids_ok = g["out"].as_array().map_or(false, |o| {
                            o.iter().zip(g["ids"].as_array().unwrap()).all(|(t, id)| t[1] == *id)
                        });
                        if issued {
                            g["kind"] == want["kind"] && g["start"] == want["start"] && g["end"] == want["end"] && same_out && ids_ok
                        } else {
                            // fabricated cursors: no panic, no error, same entries as the model
                            g["kind"] != "Err" && same_out && ids_ok
                        }
                    }
                };
                if issued {
                    let k = format!("{}|{:?}|{:?}|{}", lim, segs, c, len);
                    if want["out"].as_array().unwrap().len() > 0 || c.0 < head {
                        distinct.insert(k);
                    }
                    if c.0 < head {
                        stale_reads += 1;
                    }
                    let o = want["out"].as_array().unwrap();
                    if o.len() > 1 && o[0][0] != o[o.len() - 1][0] {
                        multi_segment_reads += 1;
                        if samples.len() < 4 {
                            samples.push(json!({"lim": lim, "appends": sizes, "cursor": [c.0, c.1], "len": len, "expected": want}));
                        }
                    }
                }
                if !ok && violations.len() < 30 {
                    let decide = match &got { Ok(g) if g["kind"] != "Err" => "trace", _ => "panic" };
                    violations.push(json!({"what": if issued {"read"} else {"fabricated-read"}, "lim": lim, "sizes": sizes,
                        "cursor": [c.0, c.1], "len": len, "decide": decide,
                        "got": match got { Ok(g) => g, Err(p) => json!({"panic": p}) }, "want": want}));
                }
                if !ok {
                    state_bad = true;
                }
            }
        }
        if state_bad && n_suspects < 10 {
            // the observable history of this state, for the property-level trace specification
            n_suspects += 1;
            writeln!(suspects, "{}", json!({"ev": "new", "cap": 4, "lim": lim, "sizes": sizes})).unwrap();
            let mut log2: CommitLog<Entry> = CommitLog::new(4 * UNIT, lim).unwrap();
            for (i, s) in sizes.iter().enumerate() {
                let o = log2.append(Entry { id: i as u64, size: *s as usize * UNIT });
                let (h, t) = log2._head_and_tail();
                writeln!(suspects, "{}", json!({"ev": "append", "size": s, "ret": [o.0, o.1], "head": h, "tail": t})).unwrap();
            }
            // cursors as the real log issues them: closure over tails, tags and continuations
            let mut cs: Vec<(u64, u64)> = vec![(0, 0), log2.next_offset()];
            let mut k = 0;
            while k < cs.len() && cs.len() < 40 {
                for len in [0u64, 1, 2, 3, 7] {
                    if let Ok(g) = read(&log2, cs[k], len) {
                        if g["kind"] != "Err" {
                            let mut add = vec![(g["end"][0].as_u64().unwrap(), g["end"][1].as_u64().unwrap())];
                            for o in g["out"].as_array().unwrap() {
                                add.push((o[0].as_u64().unwrap(), o[1].as_u64().unwrap()));
                            }
                            for a in add {
                                if !cs.contains(&a) {
                                    cs.push(a);
                                }
                            }
                        }
                        writeln!(suspects, "{}", json!({"ev": "read", "c": [cs[k].0, cs[k].1], "len": len, "res": g})).unwrap();
                    }
                }
                k += 1;
            }
        }
    }
    suspects.flush().unwrap();
    println!(
        "{}",
        json!({"evaluations": evaluations, "distinct_nontrivial": distinct.len(), "states": states, "violations": violations, "suspects": n_suspects,
               "samples": samples, "stale_reads": stale_reads, "multi_segment_reads": multi_segment_reads})
    );
}

/// Random traces at realistic sizes; one NDJSON event per call
fn trace(seed: u64, n: usize, out: &str) {
    let mut rng = StdRng::seed_from_u64(seed);
    let mut f = std::io::BufWriter::new(std::fs::File::create(out).unwrap());
    let mut events = 0u64;
    let traces = 40;
    for t in 0..traces {
        let cap_units: usize = [4, 8, 40][rng.gen_range(0..3)];
        let lim: usize = rng.gen_range(1..=4);
        writeln!(f, "{}", json!({"ev": "new", "cap": cap_units, "lim": lim, "t": t})).unwrap();
        let mut log: CommitLog<Entry> = CommitLog::new(cap_units * UNIT, lim).unwrap();
        let mut cursors: Vec<(u64, u64)> = vec![(0, 0)];
        let mut id = 0u64;
        for _ in 0..n {
            if rng.gen_bool(0.45) {
                let units: usize = match rng.gen_range(0..10) {
                    0 => cap_units + 1,
                    1..=3 => cap_units / 2,
                    _ => 1,
                };
                let r = guarded(|| log.append(Entry { id, size: units * UNIT }));
                id += 1;
                match r {
                    Ok(o) => {
                        cursors.push(o);
                        let (h, t) = log._head_and_tail();
                        writeln!(f, "{}", json!({"ev": "append", "size": units, "ret": [o.0, o.1], "head": h, "tail": t})).unwrap();
                    }
                    Err(p) => writeln!(f, "{}", json!({"ev": "panic", "op": "append", "msg": p})).unwrap(),
                }
            } else {
                let c = cursors[rng.gen_range(0..cursors.len())];
                let len = [0u64, 1, 2, 5, 100][rng.gen_range(0..5)];
                match read(&log, c, len) {
                    Ok(g) => {
                        if g["kind"] != "Err" {
                            let e = (g["end"][0].as_u64().unwrap(), g["end"][1].as_u64().unwrap());
                            cursors.push(e);
                            if let Some(o) = g["out"].as_array().and_then(|o| o.get(rng.gen_range(0..o.len().max(1)))) {
                                cursors.push((o[0].as_u64().unwrap(), o[1].as_u64().unwrap()));
                            }
                        }
                        writeln!(f, "{}", json!({"ev": "read", "c": [c.0, c.1], "len": len, "res": g})).unwrap();
                    }
                    Err(p) => writeln!(f, "{}", json!({"ev": "panic", "op": "read", "c": [c.0, c.1], "len": len, "msg": p})).unwrap(),
                }
                if cursors.len() > 64 {
                    let k = rng.gen_range(0..cursors.len());
                    cursors.swap_remove(k);
                }
            }
            events += 1;
        }
    }
    f.flush().unwrap();
    println!("{}", json!({"events": events + traces as u64, "traces": traces}));
}

fn main() {
    quiet_panics();
    let args: Vec<String> = std::env::args().collect();
    match args[1].as_str() {
        "replay" => replay(&args[2], &args[3]),
        "trace" => trace(args[2].parse().unwrap(), args[3].parse().unwrap(), &args[4]),
        _ => panic!("usage"),
    }
}
