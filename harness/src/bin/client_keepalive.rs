//! C18: the real rumqttc EventLoop (v4/v5) under paused tokio time, one tick = one second.
//! usage: client_keepalive <version 4|5> <K = keep-alive in ticks, 0 = disabled> <schedules.ndjson> <traces-out.ndjson> [server]
//! With a fifth argument "server" (MQTT 5 only) K is the Server Keep Alive of the CONNACK, which replaces the client's own
//! keep-alive (set to 7 s, a value no schedule uses) for the connection.
//! A schedule is {"stall": bool, "delays": [d...], "horizon": H, "traffic": [ticks at which the user publishes QoS 0]}:
//! the scripted broker answers the n-th PINGREQ delays[n] ticks after it saw it (1000 = never); with stall it never answers
//! the CONNECT. Recorded: {"ev":"reset"}, {"ev":"stalled","elapsed":ticks,"err":..} or {"ev":"connected"}, then one
//! {"ev":"tick","t":..,"ping":bool,"fail":"none"|err,"reply":bool} per tick.
use bytes::BytesMut;
use serde_json::{json, Value};
use std::cell::RefCell;
use std::collections::VecDeque;
use std::io::Write;
use std::rc::Rc;
use std::time::Duration;
use tokio::io::{AsyncReadExt, AsyncWriteExt, DuplexStream};
use tokio::time::Instant;
use vharness::client::*;

type Queue = Rc<RefCell<VecDeque<DuplexStream>>>;
const NEVER: u64 = 1000;
const CONN_TIMEOUT: u64 = 5;

macro_rules! driver {
    ($name:ident, $modv:ident, $mk:expr, $read:expr, $write:expr, $connack:expr, $publish:expr) => {
        async fn $name(k: u64, sched: &Value, queue: Queue, out: &mut Vec<Value>) {
            let (client, mut el) = $mk(k);
            let stall = sched["stall"].as_bool().unwrap_or(false);
            let delays: Vec<u64> = sched["delays"].as_array().unwrap().iter().map(|x| x.as_u64().unwrap()).collect();
            let horizon = sched["horizon"].as_u64().unwrap();
            let max_conns = sched["conns"].as_u64().unwrap_or(1);
            let traffic: Vec<u64> = sched["traffic"].as_array().map(|a| a.iter().map(|x| x.as_u64().unwrap()).collect()).unwrap_or_default();
            let mut npings = 0usize;
            let mut used = 0u64;      // ticks of the horizon used by earlier connections
            let mut conns = 0u64;
            loop {
                conns += 1;
                let (c_end, mut b_end) = tokio::io::duplex(1 << 20);
                queue.borrow_mut().push_back(c_end);
                let t0 = Instant::now();
                if stall && conns == 1 {
                    // bounded (virtual time): a client that never gives up is recorded as such instead of hanging the harness
                    let r = tokio::time::timeout(Duration::from_secs(4 * CONN_TIMEOUT), el.poll()).await;
                    let elapsed = (Instant::now() - t0).as_millis() as u64;
                    let err = match r { Err(_) => "StillWaiting".to_string(), Ok(Ok(_)) => "none".to_string(), Ok(Err(e)) => format!("{e:?}").split(|c: char| !c.is_alphanumeric()).next().unwrap_or("").to_string() };
                    out.push(json!({"ev": "stalled", "elapsed_ms": elapsed, "elapsed": elapsed / 1000, "exact": elapsed % 1000 == 0, "err": err}));
                    return;
                }
                let hs = async {
                    let mut buf = BytesMut::new();
                    loop {
                        if $read(&mut buf).is_some() { break; }
                        if b_end.read_buf(&mut buf).await.unwrap_or(0) == 0 { return; }
                    }
                    let mut w = BytesMut::new();
                    $connack(&mut w);
                    let _ = b_end.write_all(&w).await;
                };
                let (r, _) = tokio::join!(el.poll(), hs);
                out.push(json!({"ev": "connected", "ok": r.is_ok(), "elapsed_ms": (Instant::now() - t0).as_millis() as u64}));
                if r.is_err() { return; }
                let t1 = Instant::now();
                let mut rbuf = BytesMut::new();
                let mut due: Vec<u64> = Vec::new(); // ticks at which a PINGRESP has to be written
                let mut dead = false;
                let mut last = 0u64;
                for tick in 1..=(horizon - used) {
                    last = tick;
                    let start = t1 + Duration::from_secs(tick);
                    tokio::time::sleep_until(start).await;
                    let mut reply = false;
                    if due.contains(&tick) {
                        due.retain(|x| *x != tick);
                        let mut w = BytesMut::new();
                        $write(&pk("pingresp", 0, 0, 0), &mut w);
                        let _ = b_end.write_all(&w).await;
                        reply = true;
                    }
                    if traffic.contains(&(used + tick)) { $publish(&client); }
                    let mut ping = false;
                    let mut fail = "none".to_string();
                    // everything the event loop does in this tick (the window ends half a tick later)
                    loop {
                        match tokio::time::timeout_at(start + Duration::from_millis(500), el.poll()).await {
                            Err(_) => break,
                            Ok(Ok(_)) => {}
                            Ok(Err(e)) => { fail = $modv::loop_err(&e); dead = true; break; }
                        }
                        // what reached the broker so far
                        loop {
                            match tokio::time::timeout(Duration::ZERO, b_end.read_buf(&mut rbuf)).await { Ok(Ok(n)) if n > 0 => continue, _ => break }
                        }
                        while let Some(p) = $read(&mut rbuf) {
                            if p.t == "pingreq" {
                                ping = true;
                                let d = delays.get(npings).copied().unwrap_or(NEVER);
                                npings += 1;
                                if d == 0 {
                                    let mut w = BytesMut::new();
                                    $write(&pk("pingresp", 0, 0, 0), &mut w);
                                    let _ = b_end.write_all(&w).await;
                                } else if d != NEVER {
                                    due.push(tick + d);
                                }
                            }
                        }
                    }
                    out.push(json!({"ev": "tick", "t": tick, "ping": ping, "fail": fail, "reply": reply}));
                    if dead { break; }
                }
                used += last;
                // the same event loop connects again (after a reported failure) while the schedule allows another connection
                if !(dead && conns < max_conns && used < horizon) { break; }
                // the failure was reported half-way into the tick window at the latest; the next connection starts on the tick boundary
                out.push(json!({"ev": "reconnect"}));
            }
        }
    };
}

fn v4_mk(k: u64) -> (rumqttc::AsyncClient, rumqttc::EventLoop) {
    let mut o = rumqttc::MqttOptions::new("c", "localhost", 1883);
    o.set_keep_alive(Duration::from_secs(k));
    let (c, mut el) = rumqttc::AsyncClient::new(o, 10);
    let mut no = rumqttc::NetworkOptions::new();
    no.set_connection_timeout(CONN_TIMEOUT);
    el.set_network_options(no);
    (c, el)
}
fn v4_read(buf: &mut BytesMut) -> Option<Pk> { rumqttc::Packet::read(buf, 1 << 20).ok().map(|p| v4::unpacket(&p)) }
fn v4_write(p: &Pk, w: &mut BytesMut) { v4::packet(p).write(w, 1 << 20).unwrap(); }
fn v4_connack(w: &mut BytesMut) { rumqttc::Packet::ConnAck(rumqttc::ConnAck::new(rumqttc::ConnectReturnCode::Success, false)).write(w, 1 << 20).unwrap(); }
fn v4_publish(c: &rumqttc::AsyncClient) { let _ = c.try_publish("t", rumqttc::QoS::AtMostOnce, false, b"x".to_vec()); }

static SERVER_K: std::sync::atomic::AtomicI64 = std::sync::atomic::AtomicI64::new(-1);
fn v5_mk(k: u64) -> (rumqttc::v5::AsyncClient, rumqttc::v5::EventLoop) {
    let mut o = rumqttc::v5::MqttOptions::new("c", "localhost", 1883);
    let server = SERVER_K.load(std::sync::atomic::Ordering::Relaxed) >= 0;
    o.set_keep_alive(Duration::from_secs(if server { 7 } else { k }));
    o.set_connection_timeout(CONN_TIMEOUT);
    rumqttc::v5::AsyncClient::new(o, 10)
}
fn v5_read(buf: &mut BytesMut) -> Option<Pk> { rumqttc::v5::mqttbytes::v5::Packet::read(buf, None).ok().map(|p| v5::unpacket(&p)) }
fn v5_write(p: &Pk, w: &mut BytesMut) { v5::packet(p).write(w, None).unwrap(); }
fn v5_connack(w: &mut BytesMut) {
    let sk = SERVER_K.load(std::sync::atomic::Ordering::Relaxed);
    if sk < 0 { v5::packet(&pk("connack", 0, 0, 0)).write(w, None).unwrap(); return; }
    use rumqttc::v5::mqttbytes::v5 as cp;
    let props = cp::ConnAckProperties { session_expiry_interval: None, receive_max: None, max_qos: None, retain_available: None, max_packet_size: None,
        assigned_client_identifier: None, topic_alias_max: None, reason_string: None, user_properties: vec![], wildcard_subscription_available: None,
        subscription_identifiers_available: None, shared_subscription_available: None, server_keep_alive: Some(sk as u16), response_information: None,
        server_reference: None, authentication_method: None, authentication_data: None };
    cp::Packet::ConnAck(cp::ConnAck { session_present: false, code: cp::ConnectReturnCode::Success, properties: Some(props) }).write(w, None).unwrap();
}
fn v5_publish(c: &rumqttc::v5::AsyncClient) { let _ = c.try_publish("t", rumqttc::v5::mqttbytes::QoS::AtMostOnce, false, b"x".to_vec()); }

driver!(drive_v4, v4, v4_mk, v4_read, v4_write, v4_connack, v4_publish);
driver!(drive_v5, v5, v5_mk, v5_read, v5_write, v5_connack, v5_publish);

#[tokio::main(flavor = "current_thread", start_paused = true)]
async fn main() {
    let a: Vec<String> = std::env::args().collect();
    let (version, k) = (a[1].parse::<u32>().unwrap(), a[2].parse::<u64>().unwrap());
    if a.get(5).map(|x| x == "server").unwrap_or(false) && version == 5 { SERVER_K.store(k as i64, std::sync::atomic::Ordering::Relaxed); }
    let text = std::fs::read_to_string(&a[3]).unwrap();
    let mut f = std::io::BufWriter::new(std::fs::File::create(&a[4]).unwrap());
    let queue: Queue = Rc::new(RefCell::new(VecDeque::new()));
    let q2 = queue.clone();
    rumqttc::verif::set_connector(Some(Box::new(move || q2.borrow_mut().pop_front())));
    let (mut n, mut events) = (0u64, 0u64);
    for line in text.lines().filter(|l| !l.trim().is_empty()) {
        let sched: Value = serde_json::from_str(line).unwrap();
        let mut out = vec![json!({"ev": "reset", "version": version, "k": k, "stall": sched["stall"]})];
        if version == 4 { drive_v4(k, &sched, queue.clone(), &mut out).await } else { drive_v5(k, &sched, queue.clone(), &mut out).await }
        queue.borrow_mut().clear();
        n += 1;
        events += out.len() as u64;
        for e in out { writeln!(f, "{}", e).unwrap(); }
    }
    f.flush().unwrap();
    println!("{}", json!({"schedules": n, "events": events}));
}
