//! C20 end to end: a real router thread, two real `remote()` connections (publisher, subscriber) with every pair of listener
//! protocols (V4/V5); the publisher sends a QoS 1 PUBLISH (a v5 publisher with every subset of the publish properties), the
//! subscriber decodes what it is sent with its own client codec. usage: crossver <results.ndjson>
use bytes::BytesMut;
use rumqttd::protocol::v4::V4;
use rumqttd::protocol::v5::V5;
use rumqttd::verif::{remote, WillHandlers};
use rumqttd::{ConnectionSettings, Router, RouterConfig, Strategy};
use serde_json::{json, Value};
use std::io::Write;
use std::sync::Arc;
use std::time::Duration;
use tokio::io::{AsyncReadExt, AsyncWriteExt, DuplexStream};

use rumqttc::v5::mqttbytes::v5 as c5;

fn settings() -> Arc<ConnectionSettings> {
    Arc::new(ConnectionSettings { connection_timeout_ms: 500, max_payload_size: 20480, max_inflight_count: 100, auth: None, external_auth: None, dynamic_filters: false })
}

fn connect_bytes(v: u8, id: &str, alias: bool) -> Vec<u8> {
    let mut w = BytesMut::new();
    if v == 4 {
        let mut c = rumqttc::Connect::new(id);
        c.keep_alive = 30;
        rumqttc::Packet::Connect(c).write(&mut w, 1 << 20).unwrap();
    } else {
        // a v5 client may allow the broker to use topic aliases towards it (Topic Alias Maximum)
        let properties = if alias { let mut p = c5::ConnectProperties::new(); p.topic_alias_max = Some(10); Some(p) } else { None };
        c5::Packet::Connect(c5::Connect { keep_alive: 30, client_id: id.into(), clean_start: true, properties }, None, None).write(&mut w, None).unwrap();
    }
    w.to_vec()
}

async fn read_packets(v: u8, s: &mut DuplexStream, buf: &mut BytesMut, want: usize, ms: u64) -> Vec<Value> {
    let mut out = Vec::new();
    let deadline = std::time::Instant::now() + Duration::from_millis(ms);
    loop {
        loop {
            let r = if v == 4 {
                rumqttc::Packet::read(buf, 1 << 20).map(|p| match p {
                    rumqttc::Packet::Publish(p) => json!({"t": "publish", "topic": p.topic, "payload": String::from_utf8_lossy(&p.payload), "qos": p.qos as u8, "props": Value::Null}),
                    other => json!({"t": format!("{other:?}").split('(').next().unwrap_or("").to_lowercase()}),
                }).map_err(|e| format!("{e:?}"))
            } else {
                c5::Packet::read(buf, None).map(|p| match p {
                    c5::Packet::Publish(p) => {
                        let pr = p.properties.as_ref();
                        json!({"t": "publish", "topic": String::from_utf8_lossy(&p.topic), "payload": String::from_utf8_lossy(&p.payload), "qos": p.qos as u8,
                               "props": pr.map(|x| json!({"pfi": x.payload_format_indicator, "response_topic": x.response_topic, "correlation": x.correlation_data.as_ref().map(|b| String::from_utf8_lossy(b).to_string()),
                                                          "user": x.user_properties, "content_type": x.content_type}))})
                    }
                    other => json!({"t": format!("{other:?}").split('(').next().unwrap_or("").to_lowercase()}),
                }).map_err(|e| format!("{e:?}"))
            };
            match r {
                Ok(p) => out.push(p),
                Err(e) if e.contains("InsufficientBytes") => break,
                Err(e) => { out.push(json!({"t": "decode-error", "err": e})); return out; }
            }
        }
        if out.len() >= want || std::time::Instant::now() >= deadline { return out; }
        match tokio::time::timeout(Duration::from_millis(30), s.read_buf(buf)).await {
            Ok(Ok(0)) => { out.push(json!({"t": "closed"})); return out; }
            _ => {}
        }
    }
}

async fn run(pv: u8, sv: u8, mask: u32, subid: bool, alias: bool) -> Value {
    let config = RouterConfig { max_connections: 10, max_outgoing_packet_count: 10, max_segment_size: 100 * 1024, max_segment_count: 10, custom_segment: None,
        initialized_filters: None, shared_subscriptions_strategy: Strategy::RoundRobin };
    let tx = Router::new(0, config).spawn();
    let wh = WillHandlers::default();
    let mut ends = Vec::new();
    for (v, id) in [(sv, "sub"), (pv, "pub")] {
        let (client, server) = tokio::io::duplex(1 << 16);
        let (txr, whc) = (tx.clone(), wh.clone());
        let task = if v == 4 { tokio::spawn(async move { remote(settings(), txr, Box::new(server), V4, whc).await }) }
                   else { tokio::spawn(async move { remote(settings(), txr, Box::new(server), V5, whc).await }) };
        ends.push((client, task, BytesMut::new(), v, id));
    }
    let mut problems: Vec<String> = Vec::new();
    for (c, _, b, v, id) in ends.iter_mut() {
        c.write_all(&connect_bytes(*v, id, alias && *id == "sub")).await.unwrap();
        let got = read_packets(*v, c, b, 1, 5000).await;
        if got.first().map_or(true, |p| p["t"] != "connack") { problems.push(format!("{id}: no connack: {got:?}")); }
    }
    // subscribe x/# at QoS 1
    {
        let (c, _, b, v, _) = &mut ends[0];
        let mut w = BytesMut::new();
        if *v == 4 { let mut s = rumqttc::Subscribe::new("x/#", rumqttc::QoS::AtLeastOnce); s.pkid = 1; rumqttc::Packet::Subscribe(s).write(&mut w, 1 << 20).unwrap(); }
        else {
            // a v5 subscriber may attach a subscription identifier; the router then adds it to the publisher's properties
            let props = if subid { Some(c5::SubscribeProperties { id: Some(7), user_properties: vec![] }) } else { None };
            let mut s = c5::Subscribe::new(c5::Filter::new("x/#", rumqttc::v5::mqttbytes::QoS::AtLeastOnce), props); s.pkid = 1; c5::Packet::Subscribe(s).write(&mut w, None).unwrap();
        }
        c.write_all(&w).await.unwrap();
        let got = read_packets(*v, c, b, 1, 5000).await;
        if got.first().map_or(true, |p| p["t"] != "suback") { problems.push(format!("sub: no suback: {got:?}")); }
    }
    // publish
    let mut sent_props = Value::Null;
    {
        let (c, _, _, v, _) = &mut ends[1];
        let mut w = BytesMut::new();
        if *v == 4 {
            let mut p = rumqttc::Publish::new("x/y", rumqttc::QoS::AtLeastOnce, "hello");
            p.pkid = 7;
            rumqttc::Packet::Publish(p).write(&mut w, 1 << 20).unwrap();
        } else {
            let props = if mask == 0 { None } else { Some(c5::PublishProperties {
                payload_format_indicator: if mask & 1 != 0 { Some(1) } else { None },
                message_expiry_interval: None,
                topic_alias: None,
                response_topic: if mask & 2 != 0 { Some("re/ply".into()) } else { None },
                correlation_data: if mask & 4 != 0 { Some("corr".into()) } else { None },
                user_properties: if mask & 8 != 0 { vec![("k".into(), "v".into())] } else { vec![] },
                subscription_identifiers: vec![],
                content_type: if mask & 16 != 0 { Some("text/plain".into()) } else { None },
            }) };
            sent_props = json!(props.as_ref().map(|x| json!({"pfi": x.payload_format_indicator, "response_topic": x.response_topic, "correlation": x.correlation_data.as_ref().map(|b| String::from_utf8_lossy(b).to_string()),
                                                              "user": x.user_properties, "content_type": x.content_type})));
            let mut p = c5::Publish::new("x/y", rumqttc::v5::mqttbytes::QoS::AtLeastOnce, "hello", props);
            p.pkid = 7;
            c5::Packet::Publish(p).write(&mut w, None).unwrap();
        }
        c.write_all(&w).await.unwrap();
    }
    let got = {
        let (c, _, b, v, _) = &mut ends[0];
        read_packets(*v, c, b, 1, 5000).await
    };
    let fwd = got.iter().find(|p| p["t"] == "publish").cloned();
    match &fwd {
        None => problems.push(format!("subscriber got no publish: {got:?}")),
        Some(p) => {
            if p["topic"] != "x/y" || p["payload"] != "hello" { problems.push(format!("topic/payload differ: {p}")); }
            if sv == 4 && !p["props"].is_null() { problems.push("3.1.1 subscriber saw properties".into()); }
            if sv == 5 && pv == 5 {
                let want = if sent_props.is_null() { Value::Null } else { sent_props.clone() };
                // a forward to a v5 subscriber may carry no properties object when nothing was sent
                if !(want.is_null() && (p["props"].is_null() || p["props"]["pfi"].is_null() && p["props"]["response_topic"].is_null() && p["props"]["correlation"].is_null()
                        && p["props"]["user"].as_array().map_or(true, |a| a.is_empty()) && p["props"]["content_type"].is_null())) && p["props"] != want {
                    problems.push(format!("properties not preserved: sent {want}, seen {}", p["props"]));
                }
            }
        }
    }
    // the publisher's connection must still be alive and acknowledged
    let ack = { let (c, _, b, v, _) = &mut ends[1]; read_packets(*v, c, b, 1, 5000).await };
    if !ack.iter().any(|p| p["t"] == "puback") { problems.push(format!("publisher got no puback: {ack:?}")); }
    for (_, t, _, _, _) in ends.iter() { t.abort(); }
    json!({"pub": pv, "sub": sv, "mask": mask, "subid": subid, "alias": alias, "ok": problems.is_empty(), "problems": problems, "forward": fwd})
}

#[tokio::main(flavor = "multi_thread", worker_threads = 8)]
async fn main() {
    std::panic::set_hook(Box::new(|_| {})); // a panicking connection task is observed through its effects
    let a: Vec<String> = std::env::args().collect();
    let mut f = std::io::BufWriter::new(std::fs::File::create(&a[1]).unwrap());
    let mut hs = Vec::new();
    for pv in [4u8, 5] { for sv in [4u8, 5] { for (subid, alias) in [(false, false), (true, false), (false, true)] { if (subid || alias) && sv == 4 { continue; }
        for mask in 0..(if pv == 5 { 32 } else { 1 }) { hs.push(tokio::spawn(run(pv, sv, mask, subid, alias))); } } } }
    let (mut n, mut bad) = (0, Vec::new());
    for h in hs {
        let r = match h.await { Ok(r) => r, Err(e) => json!({"ok": false, "problems": [format!("task panicked: {e}")]}) };
        n += 1;
        if !r["ok"].as_bool().unwrap_or(false) && bad.len() < 10 { bad.push(r.clone()); }
        writeln!(f, "{}", r).unwrap();
    }
    f.flush().unwrap();
    println!("{}", json!({"runs": n, "failed": bad.len(), "first_failed": bad}));
    std::process::exit(0);
}
