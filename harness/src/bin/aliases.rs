//! Topic aliases end to end (Alias.tla): the real rumqttd routing core, stepped single-threaded through the verif
//! hooks, between the real rumqttc::v5::MqttState of a publishing client (outgoing alias check) and the real
//! rumqttc::v5::MqttState of a subscribing client (incoming alias table).
//! usage: aliases <scripts.ndjson> <traces-out.ndjson>
//! A script is {"amax": k, "steps": [{"op": "pub", "topic": t, "alias": a (-1 = no alias property), "full": bool} |
//!   {"op": "sub"|"unsub", "f": filter} | {"op": "sync"} | {"op": "reconnect"}]}.
//! Connections: P (publisher), S (subscriber, Topic Alias Maximum = amax), M (monitor: '#', no aliases; it shows which
//! topic the broker accepted a message on). After a pub only router events run (the message is appended to the logs); a sync
//! lets the scheduler run until the router is idle, S takes everything out of its link and its client state reads it.
use bytes::Bytes;
use rumqttd::protocol as dp;
use rumqttd::verif::{self, Finish, LinkOptions, LinkRx, LinkTx};
use rumqttd::{Notification, Router, RouterConfig};
use serde_json::{json, Value};
use std::io::Write;
use std::time::Instant;
use vharness::util::{guarded, panic_location_hook};

use rumqttc::v5 as c5;
use rumqttc::v5::mqttbytes::v5 as cp;

type Tx = flume::Sender<(usize, verif::Event)>;

fn run_events(router: &mut Router) {
    let mut n = 0;
    while router.verif_pending_events() > 0 && n < 10_000 {
        router.verif_step_event();
        n += 1;
    }
}

fn run_all(router: &mut Router) {
    let mut n = 0;
    while (router.verif_pending_events() > 0 || router.verif_ready_len() > 0) && n < 10_000 {
        if router.verif_pending_events() > 0 { router.verif_step_event(); } else { router.verif_consume(); }
        n += 1;
    }
}

struct Link { tx: LinkTx, rx: LinkRx, id: usize, alias_max_from_connack: u16 }

fn connect(router: &mut Router, tx: &Tx, cid: &str, amax: u16) -> Link {
    let p = verif::begin_link(tx.clone(), LinkOptions { client_id: cid.to_string(), clean: true, last_will: None, last_will_properties: None,
        dynamic_filters: false, topic_alias_max: amax }).expect("router channel");
    run_all(router);
    match p.finish() {
        Finish::Up(ltx, lrx, notif) => {
            let id = lrx.id();
            let m = match &notif { Notification::DeviceAck(verif::Ack::ConnAck(_, _, Some(props))) => props.topic_alias_max.unwrap_or(0), _ => 0 };
            Link { tx: ltx, rx: lrx, id, alias_max_from_connack: m }
        }
        _ => panic!("harness: connection of {cid} not accepted"),
    }
}

/// (notifications, link closed by the router)
fn drain(l: &mut Link) -> (Vec<Notification>, bool) {
    let mut got = Vec::new();
    let mut closed = false;
    let mut unsched = false;
    loop {
        match l.rx.recv_deadline(Instant::now()) {
            Ok(Some(x)) => { if matches!(x, Notification::Unschedule) { unsched = true; } else { got.push(x); } }
            Ok(None) => continue,
            Err(verif::LinkError::RecvTimeout(flume::RecvTimeoutError::Disconnected)) => { closed = true; break; }
            Err(_) => break,
        }
    }
    if unsched { let _ = l.rx.ready(); }
    (got, closed)
}

fn m_of(payload: &[u8]) -> u64 { std::str::from_utf8(payload).ok().and_then(|s| s.parse().ok()).unwrap_or(0) }
fn topic_json(t: &[u8]) -> Value { if t.is_empty() { json!("none") } else { json!(String::from_utf8_lossy(t)) } }

fn new_client(connack_alias_max: u16) -> c5::MqttState {
    let mut st = c5::MqttState::new(100, false);
    let mut props = cp::ConnAckProperties { session_expiry_interval: None, receive_max: None, max_qos: None, retain_available: None, max_packet_size: None, assigned_client_identifier: None, topic_alias_max: None, reason_string: None, user_properties: vec![], wildcard_subscription_available: None, subscription_identifiers_available: None, shared_subscription_available: None, server_keep_alive: None, response_information: None, server_reference: None, authentication_method: None, authentication_data: None };
    props.topic_alias_max = Some(connack_alias_max);
    let connack = cp::ConnAck { session_present: false, code: cp::ConnectReturnCode::Success, properties: Some(props) };
    st.handle_incoming_packet(cp::Packet::ConnAck(connack)).expect("connack");
    st.events.clear();
    st
}

fn run_script(script: &Value, out: &mut Vec<Value>) {
    let amax = script["amax"].as_u64().unwrap() as u16;
    let config = RouterConfig { max_connections: 10, max_outgoing_packet_count: 50, max_segment_size: 1024 * 1024, max_segment_count: 10,
        custom_segment: None, initialized_filters: None, shared_subscriptions_strategy: Default::default() };
    let mut router = Router::new(0, config);
    let tx = router.verif_link();
    let mut m_link = connect(&mut router, &tx, "monitor", 0);
    m_link.tx.buffer().push_back(dp::Packet::Subscribe(dp::Subscribe { pkid: 1, filters: vec![dp::Filter { path: "#".into(), qos: dp::QoS::AtMostOnce, nolocal: false,
        preserve_retain: false, retain_forward_rule: dp::RetainForwardRule::OnEverySubscribe }] }, None));
    verif::notify(&tx, m_link.id);
    run_all(&mut router);
    drain(&mut m_link);
    let mut p_link = connect(&mut router, &tx, "pub", 0);
    let mut s_link = connect(&mut router, &tx, "sub", amax);
    let mut p_client = new_client(p_link.alias_max_from_connack);
    let mut s_client = new_client(s_link.alias_max_from_connack);
    out.push(json!({"ev": "reset", "amax": amax, "bmax": p_link.alias_max_from_connack}));
    let mut next_m = 1u64;
    let mut pkid = 10u16;
    let mut p_down = false;
    for st in script["steps"].as_array().unwrap() {
        let op = st["op"].as_str().unwrap();
        let mut rec = st.clone();
        rec["ev"] = json!(op);
        rec.as_object_mut().unwrap().remove("op");
        let r = guarded(|| match op {
            "pub" => {
                if p_down { return json!({"res": "down"}); }
                let m = next_m;
                next_m += 1;
                let alias = st["alias"].as_i64().unwrap();
                let topic = if st["full"].as_bool().unwrap() { st["topic"].as_str().unwrap().to_string() } else { String::new() };
                let props = if alias >= 0 { let mut p = cp::PublishProperties::default(); p.topic_alias = Some(alias as u16); Some(p) } else { None };
                let publish = cp::Publish::new(topic, rumqttc::v5::mqttbytes::QoS::AtMostOnce, m.to_string(), props);
                // the publishing client's state machine decides whether the packet goes out at all
                match p_client.handle_outgoing_packet(c5::Request::Publish(publish)) {
                    Err(e) => json!({"m": m, "res": "clienterr", "err": format!("{e:?}").split([' ', '{', '(']).next().unwrap_or("")}),
                    Ok(None) => json!({"m": m, "res": "nothing"}),
                    Ok(Some(cp::Packet::Publish(p))) => {
                        let dprops = p.properties.as_ref().map(|x| dp::PublishProperties { topic_alias: x.topic_alias, ..Default::default() });
                        p_link.tx.buffer().push_back(dp::Packet::Publish(verif::publish(&p.topic, &p.payload, 0, 0, false, false), dprops));
                        verif::notify(&tx, p_link.id);
                        run_events(&mut router);
                        let disc = !router.verif_snapshot()["conns"].as_object().map_or(false, |c| c.values().any(|v| v["cid"] == "pub"));
                        if disc { p_down = true; }
                        json!({"m": m, "res": if disc { "disc" } else { "ok" }})
                    }
                    Ok(Some(other)) => panic!("harness: unexpected packet {other:?}"),
                }
            }
            "sub" | "unsub" => {
                pkid += 1;
                let f = st["f"].as_str().unwrap().to_string();
                let pk = if op == "sub" {
                    dp::Packet::Subscribe(dp::Subscribe { pkid, filters: vec![dp::Filter { path: f, qos: dp::QoS::AtMostOnce, nolocal: false, preserve_retain: false,
                        retain_forward_rule: dp::RetainForwardRule::OnEverySubscribe }] }, None)
                } else { dp::Packet::Unsubscribe(dp::Unsubscribe { pkid, filters: vec![f] }, None) };
                s_link.tx.buffer().push_back(pk);
                verif::notify(&tx, s_link.id);
                run_all(&mut router);
                let (got, closed) = drain(&mut s_link);
                let acks = got.iter().filter(|n| matches!(n, Notification::DeviceAck(_))).count();
                let fwd = got.iter().filter(|n| matches!(n, Notification::Forward(_))).count();
                json!({"acks": acks, "forwards": fwd, "closed": closed})
            }
            "sync" => {
                run_all(&mut router);
                // the monitor shows on which topic each message was accepted
                let acc: Vec<Value> = drain(&mut m_link).0.iter().filter_map(|n| match n { Notification::Forward(f) => Some(json!([m_of(&f.publish.payload), topic_json(&f.publish.topic)])), _ => None }).collect();
                let (got, closed) = drain(&mut s_link);
                if p_down {
                    // a new network connection of the publishing client
                    p_link = connect(&mut router, &tx, "pub", 0);
                    p_client = new_client(p_link.alias_max_from_connack);
                    p_down = false;
                }
                let mut wire = Vec::new();
                let mut seen = Vec::new();
                let mut gaveup = false;
                for n in got {
                    if let Notification::Forward(f) = n {
                        let alias = f.properties.as_ref().and_then(|p| p.topic_alias).unwrap_or(0);
                        let m = m_of(&f.publish.payload);
                        wire.push(json!([m, topic_json(&f.publish.topic), alias]));
                        if gaveup { continue; }
                        // what the subscribing client's state machine hands to the user
                        let mut props = cp::PublishProperties::default();
                        props.topic_alias = f.properties.as_ref().and_then(|p| p.topic_alias);
                        let mut p = cp::Publish::new(String::from_utf8_lossy(&f.publish.topic).to_string(), rumqttc::v5::mqttbytes::QoS::AtMostOnce, f.publish.payload.to_vec(),
                            if f.properties.is_some() { Some(props) } else { None });
                        p.topic = Bytes::copy_from_slice(&f.publish.topic);
                        s_client.events.clear();
                        let r = s_client.handle_incoming_packet(cp::Packet::Publish(p));
                        let out_disc = matches!(r, Ok(Some(cp::Packet::Disconnect(_)))) || r.is_err();
                        if out_disc { seen.push(json!([m, "protoerr"])); gaveup = true; continue; }
                        // the event pushed first is the packet as received; the user reads the publish after the state machine resolved it
                        // (EventLoop hands out state.events; handle_incoming_packet pushed a clone *before* resolving, so look at both)
                        let shown = s_client.events.iter().find_map(|e| match e { c5::Event::Incoming(cp::Packet::Publish(q)) => Some(q.topic.clone()), _ => None });
                        seen.push(json!([m, topic_json(&shown.unwrap_or_default())]));
                    }
                }
                json!({"acc": acc, "out": wire, "seen": seen, "closed": closed})
            }
            "reconnect" => {
                verif::send_event(&tx, s_link.id, verif::Event::Disconnect);
                run_all(&mut router);
                s_link = connect(&mut router, &tx, "sub", amax);
                // EventLoop::clean() on a lost connection; the state object lives on
                let _ = s_client.clean();
                json!({"r": "ok"})
            }
            other => panic!("harness: op {other}"),
        });
        match r {
            Ok(v) => { rec["res"] = v; out.push(rec); }
            Err(p) => { rec["panic"] = json!(p); out.push(rec); return; }
        }
    }
}

fn main() {
    let last_panic = panic_location_hook();
    let a: Vec<String> = std::env::args().collect();
    let text = std::fs::read_to_string(&a[1]).unwrap();
    let mut f = std::io::BufWriter::new(std::fs::File::create(&a[2]).unwrap());
    let (mut scripts, mut events, mut panics) = (0u64, 0u64, 0u64);
    for line in text.lines().filter(|l| !l.trim().is_empty()) {
        let script: Value = serde_json::from_str(line).unwrap();
        let mut out = Vec::new();
        run_script(&script, &mut out);
        scripts += 1;
        events += out.len() as u64;
        if out.last().map_or(false, |e| e.get("panic").is_some()) {
            panics += 1;
            if let Some(loc) = last_panic.lock().unwrap().take() { if let Some(e) = out.last_mut() { e["at"] = json!(loc); } }
        }
        for e in out { writeln!(f, "{}", e).unwrap(); }
    }
    f.flush().unwrap();
    println!("{}", json!({"scripts": scripts, "events": events, "panics": panics}));
}
