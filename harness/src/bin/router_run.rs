//! impl -> spec traces of the real rumqttd routing core, stepped single-threaded through the verif hooks.
//! usage: router_run <scripts.ndjson> <traces-out.ndjson>
//! A script is {"cfg": {max_conn, out_batch, nets: [names]}, "steps": [...]} with steps
//!   {"op":"connect","n":net,"cid":..,"clean":bool,"will":null|{topic,q,retain,m}}   LinkBuilder, first half
//!   {"op":"finish","n":net}        second half (CONNACK taken out of the buffer, or the router dropped the event)
//!   {"op":"push","n":net,"pk":{..}}  a packet is put into the link's buffer and the router is notified
//!   {"op":"drain","n":net}         the link takes everything out of its outgoing buffer (Ready if Unschedule was in it)
//!   {"op":"close","n":net}         the link task ends: Event::Disconnect
//!   {"op":"will","n":net}          Event::PublishWill for the net's client id
//!   {"op":"event"} / {"op":"consume"}   one router event / one consume() turn
//! One NDJSON record per executed step: the step, what it returned and a projection of the router state.
//! Topics and filters are written as lists of one-character strings (the TLA+ side uses sequences of symbols).
use rumqttd::protocol::*;
use rumqttd::verif::{self, Finish, LinkOptions, LinkRx, LinkTx, PendingLink};
use rumqttd::{Notification, Router, RouterConfig, Strategy};
use serde_json::{json, Value};
use std::collections::HashMap;
use std::io::Write;
use std::time::Instant;
use vharness::util::{guarded, panic_location_hook};

fn cl(s: &str) -> Value {
    // a shared path is <<"$share/", group, "/", filter symbols...>> in Router.tla
    if let Some((group, path)) = s.strip_prefix("$share/").and_then(|r| r.split_once('/')) {
        let mut v = vec![json!("$share/"), json!(group), json!("/")];
        v.extend(path.chars().map(|c| json!(c.to_string())));
        return Value::Array(v);
    }
    Value::Array(s.chars().map(|c| json!(c.to_string())).collect())
}
fn uncl(v: &Value) -> String {
    v.as_array().map(|a| a.iter().map(|x| x.as_str().unwrap_or("")).collect::<Vec<_>>().join("")).unwrap_or_default()
}
fn qos(q: u64) -> QoS {
    match q {
        0 => QoS::AtMostOnce,
        1 => QoS::AtLeastOnce,
        _ => QoS::ExactlyOnce,
    }
}

fn packet(pk: &Value) -> Packet {
    let id = pk["id"].as_u64().unwrap_or(0) as u16;
    match pk["t"].as_str().unwrap() {
        "publish" => {
            let m = &pk["msg"];
            let payload = if m["empty"].as_bool().unwrap_or(false) { String::new() } else { m["m"].as_u64().unwrap().to_string() };
            Packet::Publish(
                verif::publish(uncl(&m["topic"]).as_bytes(), payload.as_bytes(), m["q"].as_u64().unwrap() as u8, id, m["retain"].as_bool().unwrap_or(false), false),
                None,
            )
        }
        "subscribe" => Packet::Subscribe(
            Subscribe {
                pkid: id,
                filters: pk["fs"].as_array().unwrap().iter().map(|f| Filter {
                    path: uncl(&f[0]),
                    qos: qos(f[1].as_u64().unwrap()),
                    nolocal: false,
                    preserve_retain: false,
                    retain_forward_rule: RetainForwardRule::OnEverySubscribe,
                }).collect(),
            },
            None,
        ),
        "unsubscribe" => Packet::Unsubscribe(Unsubscribe { pkid: id, filters: pk["fs"].as_array().unwrap().iter().map(|f| uncl(&f[0])).collect() }, None),
        "puback" => Packet::PubAck(PubAck { pkid: id, reason: PubAckReason::Success }, None),
        "pubrec" => Packet::PubRec(PubRec { pkid: id, reason: PubRecReason::Success }, None),
        "pubrel" => Packet::PubRel(PubRel { pkid: id, reason: PubRelReason::Success }, None),
        "pubcomp" => Packet::PubComp(PubComp { pkid: id, reason: PubCompReason::Success }, None),
        "pingreq" => Packet::PingReq(PingReq),
        "disconnect" => Packet::Disconnect(Disconnect { reason_code: DisconnectReasonCode::NormalDisconnection }, None),
        other => panic!("harness: packet {other}"),
    }
}

fn notification(n: &Notification) -> Value {
    match n {
        Notification::Forward(f) => {
            let (_dup, q, pkid) = verif::publish_parts(&f.publish);
            let m: u64 = std::str::from_utf8(&f.publish.payload).ok().and_then(|s| s.parse().ok()).unwrap_or(0);
            // the packet id of a QoS 0 forward is whatever the publisher used; it is not sent
            let pkid = if q == 0 { 0 } else { pkid };
            json!({"t": "forward", "id": pkid, "m": m, "topic": cl(std::str::from_utf8(&f.publish.topic).unwrap_or("?")), "q": q, "retain": f.publish.retain,
                   "kind": "none", "codes": []})
        }
        Notification::DeviceAck(a) => {
            let (kind, id, codes): (&str, u64, Vec<u64>) = match a {
                verif::Ack::ConnAck(_, c, _) => ("connack", c.session_present as u64, vec![]),
                verif::Ack::PubAck(x) | verif::Ack::PubAckWithProperties(x, _) => ("puback", x.pkid as u64, vec![]),
                verif::Ack::PubRec(x) | verif::Ack::PubRecWithProperties(x, _) => ("pubrec", x.pkid as u64, vec![]),
                verif::Ack::PubRel(x) | verif::Ack::PubRelWithProperties(x, _) => ("pubrel", x.pkid as u64, vec![]),
                verif::Ack::PubComp(x) | verif::Ack::PubCompWithProperties(x, _) => ("pubcomp", x.pkid as u64, vec![]),
                verif::Ack::SubAck(x) | verif::Ack::SubAckWithProperties(x, _) => (
                    "suback",
                    x.pkid as u64,
                    x.return_codes.iter().map(|c| match c {
                        SubscribeReasonCode::QoS0 | SubscribeReasonCode::Success(QoS::AtMostOnce) => 0,
                        SubscribeReasonCode::QoS1 | SubscribeReasonCode::Success(QoS::AtLeastOnce) => 1,
                        SubscribeReasonCode::QoS2 | SubscribeReasonCode::Success(QoS::ExactlyOnce) => 2,
                        _ => 128,
                    }).collect(),
                ),
                verif::Ack::UnsubAck(x) => ("unsuback", x.pkid as u64, vec![]),
                verif::Ack::PingResp(_) => ("pingresp", 0, vec![]),
            };
            json!({"t": "ack", "kind": kind, "id": id, "m": 0, "topic": "none", "q": 0, "retain": false, "codes": codes})
        }
        Notification::Unschedule => json!({"t": "unschedule", "kind": "none", "id": 0, "m": 0, "topic": "none", "q": 0, "retain": false, "codes": []}),
        Notification::Disconnect(..) => json!({"t": "disconnect", "kind": "none", "id": 0, "m": 0, "topic": "none", "q": 0, "retain": false, "codes": []}),
        _ => json!({"t": "other"}),
    }
}

enum Net {
    Pending(PendingLink),
    Up(LinkTx, LinkRx, usize),
    Gone,
}

/// projection of the router snapshot in the shape RouterTrace.tla compares with
fn project(snap: &Value, max_conn: usize) -> Value {
    let filters = snap["datalog"]["filters"].as_object().unwrap();
    let mut by_idx: Vec<(u64, &String, &Value)> = filters.iter().map(|(f, v)| (v["idx"].as_u64().unwrap(), f, v)).collect();
    by_idx.sort_by_key(|x| x.0);
    let name_of = |idx: u64| by_idx.iter().find(|x| x.0 == idx).map(|x| x.1.clone()).unwrap_or_default();
    let req = |r: &Value| json!({"f": cl(r["filter"].as_str().unwrap()), "q": r["qos"], "cursor": r["cursor"][1], "retained": r["retained"]});
    let mut conns = Vec::new();
    for id in 0..max_conn {
        match snap["conns"].get(id.to_string()) {
            None => conns.push(json!({"live": false})),
            Some(c) => {
                let status = c["status"].as_str().unwrap_or("?");
                let status = if status.starts_with("Paused(") { &status[7..status.len() - 1] } else { status };
                let mut subs: Vec<&str> = c["subs"].as_array().unwrap().iter().map(|x| x.as_str().unwrap()).collect();
                subs.sort();
                conns.push(json!({
                    "live": true, "cid": c["cid"], "clean": c["clean"],
                    "subs": subs.iter().map(|s| cl(s)).collect::<Vec<_>>(),
                    "status": status,
                    "reqs": c["reqs"].as_array().unwrap().iter().map(req).collect::<Vec<_>>(),
                    "inflight": c["inflight"].as_array().unwrap().iter().map(|e| json!([e[0], cl(&name_of(e[1].as_u64().unwrap())), if e[2].is_null() { json!(-1) } else { e[2][1].clone() }])).collect::<Vec<_>>(),
                    "lastPkid": c["last_pkid"], "pubrels": c["pubrels"],
                    "acks": c["acks"], "recorded": c["recorded"],
                    "ibuf": c["ibuf"], "obuf": c["obuf"], "tokens": c["tokens"],
                }));
            }
        }
    }
    let flist: Vec<Value> = by_idx.iter().map(|(_, f, v)| json!({"f": cl(f), "len": v["next"][1],
        "waiters": v["waiters"].as_array().unwrap().iter().map(|w| json!([w[0], cl(w[1].as_str().unwrap())])).collect::<Vec<_>>()})).collect();
    let grave: Vec<Value> = snap["grave"].as_object().unwrap().iter().map(|(cid, g)| {
        if g.is_null() { json!({"cid": cid, "state": false, "reqs": [], "subs": [], "pubrels": []}) }
        else { json!({"cid": cid, "state": true, "reqs": g["reqs"].as_array().unwrap().iter().map(req).collect::<Vec<_>>(),
                      "subs": g["subs"].as_array().unwrap().iter().map(|s| cl(s.as_str().unwrap())).collect::<Vec<_>>(), "pubrels": g["pubrels"]}) }
    }).collect();
    // Router.shared_subscriptions: key (group name, or name/filter), members in order, whose turn, cursor
    let mut groups: Vec<Value> = snap["groups"].as_object().unwrap().iter().map(|(k, g)| {
        let key: Vec<Value> = match k.split_once('/') {
            Some((name, path)) => { let mut v = vec![json!(name), json!("/")]; v.extend(path.chars().map(|c| json!(c.to_string()))); v }
            None => vec![json!(k)],
        };
        json!({"key": key, "clients": g["clients"], "turn": g["turn"], "cursor": g["cursor"][1]})
    }).collect();
    groups.sort_by_key(|g| g["key"].to_string());
    json!({
        "conns": conns,
        "groups": groups,
        "readyq": snap["readyq"],
        "filters": flist,
        "connMap": snap["conn_map"],
        "subMap": snap["sub_map"].as_array().unwrap().iter().map(|e| json!([cl(e[0].as_str().unwrap()), e[1]])).collect::<Vec<_>>(),
        "retained": snap["datalog"]["retained"].as_array().unwrap().iter().map(|t| cl(t.as_str().unwrap())).collect::<Vec<_>>(),
        "wills": snap["wills"],
        "grave": grave,
        "notifs": snap["notifs"],
        "chan": snap["chan"],
        "slabs": snap["slabs"],
    })
}

fn run_script(script: &Value, out: &mut Vec<Value>) {
    let cfg = &script["cfg"];
    let max_conn = cfg["max_conn"].as_u64().unwrap() as usize;
    let config = RouterConfig {
        max_connections: max_conn,
        max_outgoing_packet_count: cfg["out_batch"].as_u64().unwrap(),
        max_segment_size: cfg["seg_size"].as_u64().unwrap_or(100 * 1024) as usize,
        max_segment_count: cfg["seg_count"].as_u64().unwrap_or(10) as usize,
        custom_segment: None,
        initialized_filters: None,
        shared_subscriptions_strategy: match cfg["strategy"].as_str().unwrap_or("RoundRobin") {
            "Random" => Strategy::Random,
            "Sticky" => Strategy::Sticky,
            _ => Strategy::RoundRobin,
        },
    };
    let mut router = Router::new(0, config);
    let tx = router.verif_link();
    let mut nets: HashMap<String, Net> = HashMap::new();
    let mut cids: HashMap<String, String> = HashMap::new();
    // what a well-behaved client still has to answer, per net (filled by drains, used by the "react" op)
    let mut todo: HashMap<String, std::collections::VecDeque<Value>> = HashMap::new();
    out.push(json!({"ev": "reset", "cfg": cfg, "consts": {"MAX_INFLIGHT": verif::MAX_INFLIGHT, "MAX_CHANNEL_CAPACITY": verif::MAX_CHANNEL_CAPACITY, "MAX_SCHEDULE_ITERATIONS": verif::MAX_SCHEDULE_ITERATIONS}}));
    let mut queue: std::collections::VecDeque<Value> = script["steps"].as_array().unwrap().iter().cloned().collect();
    while let Some(st) = queue.pop_front() {
        let st = &st;
        let op = st["op"].as_str().unwrap();
        if op == "closeall" {
            // every link that exists goes away (pending ones first complete their handshake if they can)
            let mut names: Vec<String> = nets.keys().cloned().collect();
            names.sort();
            for n in names.into_iter().rev() {
                queue.push_front(json!({"op": "close", "n": n}));
                queue.push_front(json!({"op": "finish", "n": n}));
            }
            continue;
        }
        if op == "idle" {
            // let the router run until it has nothing to do (bounded), as ordinary event / consume steps
            let budget = st["max"].as_u64().unwrap_or(400);
            if budget > 0 && (router.verif_pending_events() > 0 || router.verif_ready_len() > 0) {
                let next = if router.verif_pending_events() > 0 { "event" } else { "consume" };
                queue.push_front(json!({"op": "idle", "max": budget - 1}));
                queue.push_front(json!({"op": next}));
            } else if budget > 0 {
                // the real router says it has nothing to do (no event queued, ready queue empty): recorded, so that the model
                // has to agree that nothing can happen without a new stimulus
                queue.push_front(json!({"op": "quiet"}));
            }
            continue;
        }
        if op == "react" {
            // answer up to `max` of the notifications received so far, oldest first, as ordinary push steps
            let n = st["n"].as_str().unwrap_or("").to_string();
            let max = st["max"].as_u64().unwrap_or(1);
            let q = todo.entry(n.clone()).or_default();
            let mut pushes = Vec::new();
            for _ in 0..max {
                match q.pop_front() { Some(pk) => pushes.push(json!({"op": "push", "n": n, "pk": pk})), None => break }
            }
            for p in pushes.into_iter().rev() { queue.push_front(p); }
            continue;
        }
        let n = st["n"].as_str().unwrap_or("").to_string();
        let mut rec = st.clone();
        rec["ev"] = json!(op);
        rec.as_object_mut().unwrap().remove("op");
        let r = guarded(|| {
            match op {
                "connect" => {
                    let will = if st["will"].is_object() && st["will"]["m"].as_u64().unwrap_or(0) != 0 {
                        let w = &st["will"];
                        Some(LastWill { topic: uncl(&w["topic"]).into(), message: w["m"].as_u64().unwrap().to_string().into(), qos: qos(w["q"].as_u64().unwrap()), retain: w["retain"].as_bool().unwrap_or(false) })
                    } else { None };
                    let p = verif::begin_link(tx.clone(), LinkOptions { client_id: st["cid"].as_str().unwrap().to_string(), clean: st["clean"].as_bool().unwrap(),
                        last_will: will, last_will_properties: None, dynamic_filters: false, topic_alias_max: 0 });
                    cids.insert(n.clone(), st["cid"].as_str().unwrap().to_string());
                    match p { Some(p) => { nets.insert(n.clone(), Net::Pending(p)); json!({"r": "queued"}) } None => json!({"r": "full"}) }
                }
                "finish" => match nets.remove(&n) {
                    Some(Net::Pending(p)) => match p.finish() {
                        Finish::Up(ltx, lrx, notif) => { let id = lrx.id(); nets.insert(n.clone(), Net::Up(ltx, lrx, id)); json!({"r": "up", "id": id, "connack": notification(&notif)}) }
                        Finish::Dropped => { nets.insert(n.clone(), Net::Gone); json!({"r": "dropped"}) }
                        Finish::NotYet(p) => { nets.insert(n.clone(), Net::Pending(p)); json!({"r": "notyet"}) }
                    },
                    Some(x) => { nets.insert(n.clone(), x); json!({"r": "noop"}) }
                    None => json!({"r": "noop"}),
                },
                "push" => match nets.get_mut(&n) {
                    Some(Net::Up(ltx, _, id)) => { ltx.buffer().push_back(packet(&st["pk"])); json!({"r": if verif::notify(&tx, *id) { "ok" } else { "full" }}) }
                    _ => json!({"r": "noop"}),
                },
                "drain" => match nets.get_mut(&n) {
                    Some(Net::Up(_, lrx, _)) => {
                        let mut got = Vec::new();
                        let mut unsched = false;
                        let mut closed = false;
                        loop {
                            match lrx.recv_deadline(Instant::now()) {
                                Ok(Some(x)) => { if matches!(x, Notification::Unschedule) { unsched = true; } got.push(notification(&x)); }
                                Ok(None) => continue,
                                Err(verif::LinkError::RecvTimeout(flume::RecvTimeoutError::Disconnected)) => { closed = true; break; }
                                Err(_) => break,
                            }
                        }
                        if unsched { let _ = lrx.ready(); }
                        let q = todo.entry(n.clone()).or_default();
                        let nomsg = json!({"m": 0, "topic": "none", "q": 0, "retain": false, "empty": false});
                        for x in got.iter() {
                            let reply = match (x["t"].as_str().unwrap_or(""), x["kind"].as_str().unwrap_or(""), x["q"].as_u64().unwrap_or(0)) {
                                ("forward", _, 1) => Some("puback"),
                                ("forward", _, 2) => Some("pubrec"),
                                ("ack", "pubrel", _) => Some("pubcomp"),
                                ("ack", "pubrec", _) => Some("pubrel"),
                                _ => None,
                            };
                            if let Some(k) = reply { q.push_back(json!({"t": k, "id": x["id"], "msg": nomsg, "fs": []})); }
                        }
                        json!({"r": "ok", "out": got, "ready": unsched, "closed": closed})
                    }
                    _ => json!({"r": "noop"}),
                },
                "close" => match nets.remove(&n) {
                    Some(Net::Up(_, _, id)) => { nets.insert(n.clone(), Net::Gone); json!({"r": if verif::send_event(&tx, id, verif::Event::Disconnect) { "ok" } else { "full" }}) }
                    Some(x) => { nets.insert(n.clone(), x); json!({"r": "noop"}) }
                    None => json!({"r": "noop"}),
                },
                "will" => { let cid = cids.get(&n).cloned().unwrap_or_default(); json!({"r": if verif::send_event(&tx, 0, verif::Event::PublishWill((cid, None))) { "ok" } else { "full" }}) }
                "ready" => match nets.get(&n) { Some(Net::Up(_, _, id)) => json!({"r": if verif::send_event(&tx, *id, verif::Event::Ready) { "ok" } else { "full" }}), _ => json!({"r": "noop"}) },
                "rawevent" => {
                    let id = st["id"].as_u64().unwrap() as usize;
                    let e = match st["kind"].as_str().unwrap() { "Ready" => verif::Event::Ready, "Disconnect" => verif::Event::Disconnect, "DeviceData" => verif::Event::DeviceData,
                        _ => verif::Event::Shadow(verif::ShadowRequest { filter: "a/b".into() }) };
                    json!({"r": if verif::send_event(&tx, id, e) { "ok" } else { "full" }})
                }
                "quiet" => json!({"r": "ok", "pending": router.verif_pending_events(), "ready": router.verif_ready_len()}),
                "event" => json!({"r": "ok", "some": router.verif_step_event()}),
                "consume" => json!({"r": "ok", "some": router.verif_consume()}),
                other => panic!("harness: op {other}"),
            }
        });
        match r {
            Ok(v) => {
                rec["res"] = v;
                let snap = guarded(|| router.verif_snapshot());
                match snap { Ok(s) => { rec["proj"] = project(&s, max_conn); } Err(p) => { rec["panic"] = json!(p); out.push(rec); return; } }
                // link-side buffer lengths
                let mut nl = serde_json::Map::new();
                for (name, net) in nets.iter() {
                    if let Net::Up(ltx, _, id) = net { nl.insert(name.clone(), json!({"id": id, "ibuf": ltx.buffer().len()})); }
                }
                rec["links"] = Value::Object(nl);
                out.push(rec);
            }
            Err(p) => {
                rec["panic"] = json!(p);
                out.push(rec);
                return; // the router is dead
            }
        }
    }
}

fn main() {
    let last_panic = panic_location_hook();
    let a: Vec<String> = std::env::args().collect();
    let text = std::fs::read_to_string(&a[1]).unwrap();
    let mut f = std::io::BufWriter::new(std::fs::File::create(&a[2]).unwrap());
    let (mut scripts, mut events, mut panics) = (0u64, 0u64, 0u64);
    for line in text.lines().filter(|l| !l.trim().is_empty()) {
        let script: Value = serde_json::from_str(line).unwrap();
        let mut out = Vec::new();
        run_script(&script, &mut out);
        scripts += 1;
        events += out.len() as u64;
        if out.last().map_or(false, |e| e.get("panic").is_some()) {
            panics += 1;
            if let Some(loc) = last_panic.lock().unwrap().take() {
                if let Some(e) = out.last_mut() { e["at"] = json!(loc); }
            }
        }
        for e in out { writeln!(f, "{}", e).unwrap(); }
    }
    f.flush().unwrap();
    println!("{}", json!({"scripts": scripts, "events": events, "panics": panics}));
}
