//! Codec conformance: the four MQTT codec copies against externally produced vectors.
//!   codecs roundtrip <vectors.ndjson> <results.ndjson> : build / encode / cross-decode every vector
//!   codecs decode <inputs.ndjson> <results.ndjson>     : framed-reader simulation over raw bytes
//!
//! Codec copies:  c4 = rumqttc v4, c5 = rumqttc v5, d4 = rumqttd v4, d5 = rumqttd v5.
//! Packets travel through the harness as JSON descriptions (see `normalise` for the canonical form);
//! every codec has a description -> packet builder and a packet -> description projection.
use bytes::{Bytes, BytesMut};
use rumqttd::protocol::Protocol as _;
use serde_json::{json, Map, Value};
use std::io::Write;
use vharness::util::{guarded, quiet_panics};

use rumqttc::mqttbytes as m4;
use rumqttc::mqttbytes::v4 as c4;
use rumqttc::v5::mqttbytes as m5;
use rumqttc::v5::mqttbytes::v5 as c5;
use rumqttd::protocol as dp;

// ------------------------------------------------------------------------------------------------
// compact strings: {"len": n, "ch": "a"}  (also accepted: {"hex": ".."} and plain JSON strings)
// ------------------------------------------------------------------------------------------------

fn hex(b: &[u8]) -> String {
    let mut s = String::with_capacity(b.len() * 2);
    for x in b {
        s.push_str(&format!("{:02x}", x));
    }
    s
}

fn unhex(s: &str) -> Result<Vec<u8>, String> {
    let s: Vec<u8> = s.bytes().filter(|c| !c.is_ascii_whitespace()).collect();
    if s.len() % 2 != 0 {
        return Err("odd hex length".into());
    }
    let nib = |c: u8| -> Result<u8, String> {
        match c {
            b'0'..=b'9' => Ok(c - b'0'),
            b'a'..=b'f' => Ok(c - b'a' + 10),
            b'A'..=b'F' => Ok(c - b'A' + 10),
            _ => Err(format!("bad hex digit {:?}", c as char)),
        }
    };
    s.chunks(2).map(|p| Ok(nib(p[0])? << 4 | nib(p[1])?)).collect()
}

fn s_bytes(v: &Value) -> Result<Vec<u8>, String> {
    match v {
        Value::String(s) => Ok(s.as_bytes().to_vec()),
        Value::Object(o) => {
            if let Some(h) = o.get("hex").and_then(|h| h.as_str()) {
                return unhex(h);
            }
            let n = o.get("len").and_then(|n| n.as_u64()).ok_or("string without len")? as usize;
            let ch = o.get("ch").and_then(|c| c.as_str()).unwrap_or("");
            if n > 0 && ch.is_empty() {
                return Err("string with len > 0 and empty ch".into());
            }
            Ok(ch.repeat(n).into_bytes())
        }
        other => Err(format!("not a string description: {}", short(other))),
    }
}

fn s_string(v: &Value) -> Result<String, String> {
    String::from_utf8(s_bytes(v)?).map_err(|_| "string description is not utf-8".to_string())
}

fn s_b(v: &Value) -> Result<Bytes, String> {
    Ok(Bytes::from(s_bytes(v)?))
}

/// Canonical description of a byte string
fn s_desc(b: &[u8]) -> Value {
    if b.is_empty() {
        return json!({"len": 0, "ch": ""});
    }
    if let Ok(s) = std::str::from_utf8(b) {
        let c = s.chars().next().unwrap();
        if s.chars().all(|x| x == c) {
            return json!({"len": s.chars().count(), "ch": c.to_string()});
        }
    }
    json!({"len": b.len(), "hex": hex(b)})
}

fn ns(v: &Value) -> Value {
    match s_bytes(v) {
        Ok(b) => s_desc(&b),
        Err(e) => json!({"bad_string": e}),
    }
}

fn short(v: &Value) -> String {
    let s = v.to_string();
    if s.len() > 120 {
        let mut cut = 120;
        while !s.is_char_boundary(cut) {
            cut -= 1;
        }
        format!("{}...", &s[..cut])
    } else {
        s
    }
}

fn gu(d: &Value, k: &str) -> u64 {
    d.get(k).and_then(|x| x.as_u64()).unwrap_or(0)
}

fn gb(d: &Value, k: &str) -> bool {
    d.get(k).and_then(|x| x.as_bool()).unwrap_or(false)
}

// ------------------------------------------------------------------------------------------------
// canonical form of a description
// ------------------------------------------------------------------------------------------------

#[derive(Clone, Copy)]
enum K {
    Num,
    Str,
    Users,
    Ids,
    FirstId,
}

const P_CONNECT: &[(&str, K)] = &[
    ("session_expiry", K::Num),
    ("receive_max", K::Num),
    ("max_packet_size", K::Num),
    ("topic_alias_max", K::Num),
    ("request_response_info", K::Num),
    ("request_problem_info", K::Num),
    ("user", K::Users),
    ("auth_method", K::Str),
    ("auth_data", K::Str),
];
const P_WILL: &[(&str, K)] = &[
    ("delay", K::Num),
    ("pfi", K::Num),
    ("expiry", K::Num),
    ("content_type", K::Str),
    ("response_topic", K::Str),
    ("correlation", K::Str),
    ("user", K::Users),
];
const P_CONNACK: &[(&str, K)] = &[
    ("session_expiry", K::Num),
    ("receive_max", K::Num),
    ("max_qos", K::Num),
    ("retain_available", K::Num),
    ("max_packet_size", K::Num),
    ("assigned_client_id", K::Str),
    ("topic_alias_max", K::Num),
    ("reason_string", K::Str),
    ("user", K::Users),
    ("wildcard_sub_available", K::Num),
    ("subid_available", K::Num),
    ("shared_sub_available", K::Num),
    ("server_keep_alive", K::Num),
    ("response_info", K::Str),
    ("server_reference", K::Str),
    ("auth_method", K::Str),
    ("auth_data", K::Str),
];
const P_PUBLISH: &[(&str, K)] = &[
    ("pfi", K::Num),
    ("expiry", K::Num),
    ("alias", K::Num),
    ("response_topic", K::Str),
    ("correlation", K::Str),
    ("user", K::Users),
    ("subid", K::Ids),
    ("content_type", K::Str),
];
const P_ACK: &[(&str, K)] = &[("reason_string", K::Str), ("user", K::Users)];
const P_SUBSCRIBE: &[(&str, K)] = &[("subid", K::FirstId), ("user", K::Users)];
const P_UNSUBSCRIBE: &[(&str, K)] = &[("user", K::Users)];
const P_DISCONNECT: &[(&str, K)] = &[
    ("session_expiry", K::Num),
    ("reason_string", K::Str),
    ("user", K::Users),
    ("server_reference", K::Str),
];

/// Properties: only the keys the packet type has; empty -> null
fn nprops(keys: &[(&str, K)], p: &Value) -> Value {
    let Some(p) = p.as_object() else { return Value::Null };
    let mut o = Map::new();
    for (k, kind) in keys {
        let Some(x) = p.get(*k) else { continue };
        if x.is_null() {
            continue;
        }
        match kind {
            K::Num => {
                if let Some(n) = x.as_u64() {
                    o.insert(k.to_string(), json!(n));
                }
            }
            K::Str => {
                o.insert(k.to_string(), ns(x));
            }
            K::Users => {
                let l: Vec<Value> = x
                    .as_array()
                    .map(|a| a.iter().map(|kv| json!([ns(&kv[0]), ns(&kv[1])])).collect())
                    .unwrap_or_default();
                if !l.is_empty() {
                    o.insert(k.to_string(), Value::Array(l));
                }
            }
            K::Ids | K::FirstId => {
                let mut l: Vec<Value> = x
                    .as_array()
                    .map(|a| a.iter().filter_map(|n| n.as_u64()).map(|n| json!(n)).collect())
                    .unwrap_or_default();
                if matches!(kind, K::FirstId) {
                    l.truncate(1);
                }
                if !l.is_empty() {
                    o.insert(k.to_string(), Value::Array(l));
                }
            }
        }
    }
    if o.is_empty() {
        Value::Null
    } else {
        Value::Object(o)
    }
}

fn nums(d: &Value, k: &str) -> Value {
    Value::Array(
        d.get(k)
            .and_then(|a| a.as_array())
            .map(|a| a.iter().map(|n| json!(n.as_u64().unwrap_or(0))).collect())
            .unwrap_or_default(),
    )
}

/// Canonical description: all keys of the version present with defaults, nothing else.
/// Used both on vectors (before building) and on projections of decoded packets.
fn normalise(v: u8, d: &Value) -> Value {
    let v5 = v == 5;
    let t = d.get("t").and_then(|t| t.as_str()).unwrap_or("").to_string();
    let mut o = Map::new();
    o.insert("t".into(), json!(t));
    let num = |o: &mut Map<String, Value>, k: &str| {
        o.insert(k.into(), json!(gu(d, k)));
    };
    match t.as_str() {
        "connect" => {
            num(&mut o, "keep_alive");
            o.insert("client_id".into(), ns(&d["client_id"]));
            o.insert("clean".into(), json!(gb(d, "clean")));
            let will = match d.get("will") {
                Some(w) if w.is_object() => {
                    let mut wo = Map::new();
                    wo.insert("topic".into(), ns(&w["topic"]));
                    wo.insert("payload".into(), ns(&w["payload"]));
                    wo.insert("qos".into(), json!(gu(w, "qos")));
                    wo.insert("retain".into(), json!(gb(w, "retain")));
                    if v5 {
                        let wp = match w.get("will_props") {
                            Some(p) if !p.is_null() => p,
                            _ => &d["will_props"],
                        };
                        wo.insert("will_props".into(), nprops(P_WILL, wp));
                    }
                    Value::Object(wo)
                }
                _ => Value::Null,
            };
            o.insert("will".into(), will);
            let login = match d.get("login") {
                Some(l) if l.is_object() => json!({"user": ns(&l["user"]), "pass": ns(&l["pass"])}),
                _ => Value::Null,
            };
            o.insert("login".into(), login);
            if v5 {
                o.insert("props".into(), nprops(P_CONNECT, &d["props"]));
            }
        }
        "connack" => {
            o.insert("sp".into(), json!(gb(d, "sp")));
            num(&mut o, "code");
            if v5 {
                o.insert("props".into(), nprops(P_CONNACK, &d["props"]));
            }
        }
        "publish" => {
            let qos = gu(d, "qos");
            o.insert("dup".into(), json!(gb(d, "dup")));
            o.insert("qos".into(), json!(qos));
            o.insert("retain".into(), json!(gb(d, "retain")));
            o.insert("topic".into(), ns(&d["topic"]));
            o.insert("pkid".into(), json!(if qos == 0 { 0 } else { gu(d, "pkid") }));
            o.insert("payload".into(), ns(&d["payload"]));
            if v5 {
                o.insert("props".into(), nprops(P_PUBLISH, &d["props"]));
            }
        }
        "puback" | "pubrec" | "pubrel" | "pubcomp" => {
            num(&mut o, "pkid");
            if v5 {
                num(&mut o, "reason");
                o.insert("props".into(), nprops(P_ACK, &d["props"]));
            }
        }
        "subscribe" => {
            num(&mut o, "pkid");
            let fs: Vec<Value> = d
                .get("filters")
                .and_then(|f| f.as_array())
                .map(|a| {
                    a.iter()
                        .map(|f| {
                            let mut fo = Map::new();
                            fo.insert("path".into(), ns(&f["path"]));
                            fo.insert("qos".into(), json!(gu(f, "qos")));
                            if v5 {
                                fo.insert("nolocal".into(), json!(gb(f, "nolocal")));
                                fo.insert("preserve_retain".into(), json!(gb(f, "preserve_retain")));
                                fo.insert("retain_forward".into(), json!(gu(f, "retain_forward")));
                            }
                            Value::Object(fo)
                        })
                        .collect()
                })
                .unwrap_or_default();
            o.insert("filters".into(), Value::Array(fs));
            if v5 {
                o.insert("props".into(), nprops(P_SUBSCRIBE, &d["props"]));
            }
        }
        "suback" => {
            num(&mut o, "pkid");
            o.insert("codes".into(), nums(d, "codes"));
            if v5 {
                o.insert("props".into(), nprops(P_ACK, &d["props"]));
            }
        }
        "unsubscribe" => {
            num(&mut o, "pkid");
            let fs: Vec<Value> = d
                .get("filters")
                .and_then(|f| f.as_array())
                .map(|a| a.iter().map(ns).collect())
                .unwrap_or_default();
            o.insert("filters".into(), Value::Array(fs));
            if v5 {
                o.insert("props".into(), nprops(P_UNSUBSCRIBE, &d["props"]));
            }
        }
        "unsuback" => {
            num(&mut o, "pkid");
            if v5 {
                o.insert("reasons".into(), nums(d, "reasons"));
                o.insert("props".into(), nprops(P_ACK, &d["props"]));
            }
        }
        "disconnect" => {
            if v5 {
                num(&mut o, "reason");
                o.insert("props".into(), nprops(P_DISCONNECT, &d["props"]));
            }
        }
        _ => {} // pingreq, pingresp, auth, unknown
    }
    Value::Object(o)
}

/// First place where two canonical descriptions differ
fn diff(path: &str, got: &Value, want: &Value) -> Option<String> {
    if got == want {
        return None;
    }
    match (got, want) {
        (Value::Object(a), Value::Object(b)) => {
            for k in a.keys().chain(b.keys()) {
                let (x, y) = (a.get(k).unwrap_or(&Value::Null), b.get(k).unwrap_or(&Value::Null));
                if let Some(m) = diff(&format!("{path}.{k}"), x, y) {
                    return Some(m);
                }
            }
            None
        }
        (Value::Array(a), Value::Array(b)) if a.len() == b.len() => {
            a.iter().zip(b).enumerate().find_map(|(i, (x, y))| diff(&format!("{path}[{i}]"), x, y))
        }
        _ => Some(format!("{path}: got {} want {}", short(got), short(want))),
    }
}

// ------------------------------------------------------------------------------------------------
// property helpers shared by both v5 copies
// ------------------------------------------------------------------------------------------------

fn opt_u(p: &Value, k: &str) -> Option<u64> {
    p.get(k).and_then(|x| x.as_u64())
}

fn opt_s(p: &Value, k: &str) -> Result<Option<String>, String> {
    match p.get(k) {
        Some(x) if !x.is_null() => Ok(Some(s_string(x).map_err(|e| format!("{k}: {e}"))?)),
        _ => Ok(None),
    }
}

fn opt_b(p: &Value, k: &str) -> Result<Option<Bytes>, String> {
    match p.get(k) {
        Some(x) if !x.is_null() => Ok(Some(s_b(x).map_err(|e| format!("{k}: {e}"))?)),
        _ => Ok(None),
    }
}

fn users(p: &Value) -> Result<Vec<(String, String)>, String> {
    let mut out = Vec::new();
    if let Some(a) = p.get("user").and_then(|u| u.as_array()) {
        for kv in a {
            out.push((s_string(&kv[0])?, s_string(&kv[1])?));
        }
    }
    Ok(out)
}

fn subids(p: &Value) -> Vec<usize> {
    p.get("subid")
        .and_then(|a| a.as_array())
        .map(|a| a.iter().filter_map(|n| n.as_u64()).map(|n| n as usize).collect())
        .unwrap_or_default()
}

fn put_u<T: Into<u64>>(o: &mut Map<String, Value>, k: &str, x: Option<T>) {
    if let Some(x) = x {
        o.insert(k.into(), json!(x.into()));
    }
}

fn put_s(o: &mut Map<String, Value>, k: &str, x: &Option<String>) {
    if let Some(x) = x {
        o.insert(k.into(), s_desc(x.as_bytes()));
    }
}

fn put_b(o: &mut Map<String, Value>, k: &str, x: &Option<Bytes>) {
    if let Some(x) = x {
        o.insert(k.into(), s_desc(x));
    }
}

fn put_users(o: &mut Map<String, Value>, u: &[(String, String)]) {
    if !u.is_empty() {
        let l: Vec<Value> = u.iter().map(|(k, v)| json!([s_desc(k.as_bytes()), s_desc(v.as_bytes())])).collect();
        o.insert("user".into(), Value::Array(l));
    }
}

macro_rules! code_map {
    ($to:ident, $from:ident, $ty:ident, { $($n:literal => $v:ident),* $(,)? }) => {
        pub fn $to(n: u64) -> Result<$ty, String> {
            match n {
                $($n => Ok($ty::$v),)*
                _ => Err(format!("unsupported {} {}", stringify!($ty), n)),
            }
        }
        #[allow(unreachable_patterns)]
        pub fn $from(x: &$ty) -> u64 {
            match x {
                $($ty::$v => $n,)*
                _ => 999,
            }
        }
    };
}

macro_rules! ack_props {
    ($build:ident, $desc:ident, $ty:ident) => {
        pub fn $build(p: &Value) -> Result<Option<$ty>, String> {
            if p.is_null() {
                return Ok(None);
            }
            Ok(Some($ty {
                reason_string: opt_s(p, "reason_string")?,
                user_properties: users(p)?,
            }))
        }
        pub fn $desc(p: &Option<$ty>) -> Value {
            let Some(p) = p else { return Value::Null };
            let mut o = Map::new();
            put_s(&mut o, "reason_string", &p.reason_string);
            put_users(&mut o, &p.user_properties);
            Value::Object(o)
        }
    };
}

/// Everything that has the same shape (type and field names) in rumqttc v5 and rumqttd
macro_rules! v5_common {
    ($m:ident, [$($root:ident)::+], [$($qos:ident)::+]) => {
        #[allow(dead_code, unused_imports)]
        mod $m {
            use super::*;
            pub use $($qos)::+::QoS;
            pub use $($root)::+::{
                ConnAckProperties, ConnectProperties, ConnectReturnCode, DisconnectProperties, DisconnectReasonCode,
                Filter, LastWillProperties, PubAckProperties, PubAckReason, PubCompProperties, PubCompReason,
                PubRecProperties, PubRecReason, PubRelProperties, PubRelReason, PublishProperties, RetainForwardRule,
                SubAckProperties, SubscribeProperties, UnsubAckProperties, UnsubAckReason, UnsubscribeProperties,
            };

            pub fn qos(n: u64) -> Result<QoS, String> {
                match n {
                    0 => Ok(QoS::AtMostOnce),
                    1 => Ok(QoS::AtLeastOnce),
                    2 => Ok(QoS::ExactlyOnce),
                    n => Err(format!("bad qos {n}")),
                }
            }

            code_map!(connack_code, connack_num, ConnectReturnCode, {
                0 => Success, 128 => UnspecifiedError, 129 => MalformedPacket, 130 => ProtocolError,
                131 => ImplementationSpecificError, 132 => UnsupportedProtocolVersion, 133 => ClientIdentifierNotValid,
                134 => BadUserNamePassword, 135 => NotAuthorized, 136 => ServerUnavailable, 137 => ServerBusy,
                138 => Banned, 140 => BadAuthenticationMethod, 144 => TopicNameInvalid, 149 => PacketTooLarge,
                151 => QuotaExceeded, 153 => PayloadFormatInvalid, 154 => RetainNotSupported, 155 => QoSNotSupported,
                156 => UseAnotherServer, 157 => ServerMoved, 159 => ConnectionRateExceeded,
            });
            code_map!(puback_code, puback_num, PubAckReason, {
                0 => Success, 16 => NoMatchingSubscribers, 128 => UnspecifiedError, 131 => ImplementationSpecificError,
                135 => NotAuthorized, 144 => TopicNameInvalid, 145 => PacketIdentifierInUse, 151 => QuotaExceeded,
                153 => PayloadFormatInvalid,
            });
            code_map!(pubrec_code, pubrec_num, PubRecReason, {
                0 => Success, 16 => NoMatchingSubscribers, 128 => UnspecifiedError, 131 => ImplementationSpecificError,
                135 => NotAuthorized, 144 => TopicNameInvalid, 145 => PacketIdentifierInUse, 151 => QuotaExceeded,
                153 => PayloadFormatInvalid,
            });
            code_map!(pubrel_code, pubrel_num, PubRelReason, { 0 => Success, 146 => PacketIdentifierNotFound });
            code_map!(pubcomp_code, pubcomp_num, PubCompReason, { 0 => Success, 146 => PacketIdentifierNotFound });
            code_map!(unsuback_code, unsuback_num, UnsubAckReason, {
                0 => Success, 17 => NoSubscriptionExisted, 128 => UnspecifiedError, 131 => ImplementationSpecificError,
                135 => NotAuthorized, 143 => TopicFilterInvalid, 145 => PacketIdentifierInUse,
            });
            code_map!(disconnect_code, disconnect_num, DisconnectReasonCode, {
                0 => NormalDisconnection, 4 => DisconnectWithWillMessage, 128 => UnspecifiedError, 129 => MalformedPacket,
                130 => ProtocolError, 131 => ImplementationSpecificError, 135 => NotAuthorized, 137 => ServerBusy,
                139 => ServerShuttingDown, 141 => KeepAliveTimeout, 142 => SessionTakenOver, 143 => TopicFilterInvalid,
                144 => TopicNameInvalid, 147 => ReceiveMaximumExceeded, 148 => TopicAliasInvalid, 149 => PacketTooLarge,
                150 => MessageRateTooHigh, 151 => QuotaExceeded, 152 => AdministrativeAction, 153 => PayloadFormatInvalid,
                154 => RetainNotSupported, 155 => QoSNotSupported, 156 => UseAnotherServer, 157 => ServerMoved,
                158 => SharedSubscriptionNotSupported, 159 => ConnectionRateExceeded, 160 => MaximumConnectTime,
                161 => SubscriptionIdentifiersNotSupported, 162 => WildcardSubscriptionsNotSupported,
            });

            ack_props!(puback_props, puback_props_desc, PubAckProperties);
            ack_props!(pubrec_props, pubrec_props_desc, PubRecProperties);
            ack_props!(pubrel_props, pubrel_props_desc, PubRelProperties);
            ack_props!(pubcomp_props, pubcomp_props_desc, PubCompProperties);
            ack_props!(suback_props, suback_props_desc, SubAckProperties);
            ack_props!(unsuback_props, unsuback_props_desc, UnsubAckProperties);

            pub fn connect_props(p: &Value) -> Result<Option<ConnectProperties>, String> {
                if p.is_null() {
                    return Ok(None);
                }
                Ok(Some(ConnectProperties {
                    session_expiry_interval: opt_u(p, "session_expiry").map(|x| x as u32),
                    receive_maximum: opt_u(p, "receive_max").map(|x| x as u16),
                    max_packet_size: opt_u(p, "max_packet_size").map(|x| x as u32),
                    topic_alias_max: opt_u(p, "topic_alias_max").map(|x| x as u16),
                    request_response_info: opt_u(p, "request_response_info").map(|x| x as u8),
                    request_problem_info: opt_u(p, "request_problem_info").map(|x| x as u8),
                    user_properties: users(p)?,
                    authentication_method: opt_s(p, "auth_method")?,
                    authentication_data: opt_b(p, "auth_data")?,
                }))
            }
            pub fn connect_props_desc(p: &Option<ConnectProperties>) -> Value {
                let Some(p) = p else { return Value::Null };
                let mut o = Map::new();
                put_u(&mut o, "session_expiry", p.session_expiry_interval);
                put_u(&mut o, "receive_max", p.receive_maximum);
                put_u(&mut o, "max_packet_size", p.max_packet_size);
                put_u(&mut o, "topic_alias_max", p.topic_alias_max);
                put_u(&mut o, "request_response_info", p.request_response_info);
                put_u(&mut o, "request_problem_info", p.request_problem_info);
                put_users(&mut o, &p.user_properties);
                put_s(&mut o, "auth_method", &p.authentication_method);
                put_b(&mut o, "auth_data", &p.authentication_data);
                Value::Object(o)
            }

            pub fn will_props(p: &Value) -> Result<Option<LastWillProperties>, String> {
                if p.is_null() {
                    return Ok(None);
                }
                Ok(Some(LastWillProperties {
                    delay_interval: opt_u(p, "delay").map(|x| x as u32),
                    payload_format_indicator: opt_u(p, "pfi").map(|x| x as u8),
                    message_expiry_interval: opt_u(p, "expiry").map(|x| x as u32),
                    content_type: opt_s(p, "content_type")?,
                    response_topic: opt_s(p, "response_topic")?,
                    correlation_data: opt_b(p, "correlation")?,
                    user_properties: users(p)?,
                }))
            }
            pub fn will_props_desc(p: &Option<LastWillProperties>) -> Value {
                let Some(p) = p else { return Value::Null };
                let mut o = Map::new();
                put_u(&mut o, "delay", p.delay_interval);
                put_u(&mut o, "pfi", p.payload_format_indicator);
                put_u(&mut o, "expiry", p.message_expiry_interval);
                put_s(&mut o, "content_type", &p.content_type);
                put_s(&mut o, "response_topic", &p.response_topic);
                put_b(&mut o, "correlation", &p.correlation_data);
                put_users(&mut o, &p.user_properties);
                Value::Object(o)
            }

            pub fn connack_props(p: &Value) -> Result<Option<ConnAckProperties>, String> {
                if p.is_null() {
                    return Ok(None);
                }
                Ok(Some(ConnAckProperties {
                    session_expiry_interval: opt_u(p, "session_expiry").map(|x| x as u32),
                    receive_max: opt_u(p, "receive_max").map(|x| x as u16),
                    max_qos: opt_u(p, "max_qos").map(|x| x as u8),
                    retain_available: opt_u(p, "retain_available").map(|x| x as u8),
                    max_packet_size: opt_u(p, "max_packet_size").map(|x| x as u32),
                    assigned_client_identifier: opt_s(p, "assigned_client_id")?,
                    topic_alias_max: opt_u(p, "topic_alias_max").map(|x| x as u16),
                    reason_string: opt_s(p, "reason_string")?,
                    user_properties: users(p)?,
                    wildcard_subscription_available: opt_u(p, "wildcard_sub_available").map(|x| x as u8),
                    subscription_identifiers_available: opt_u(p, "subid_available").map(|x| x as u8),
                    shared_subscription_available: opt_u(p, "shared_sub_available").map(|x| x as u8),
                    server_keep_alive: opt_u(p, "server_keep_alive").map(|x| x as u16),
                    response_information: opt_s(p, "response_info")?,
                    server_reference: opt_s(p, "server_reference")?,
                    authentication_method: opt_s(p, "auth_method")?,
                    authentication_data: opt_b(p, "auth_data")?,
                }))
            }
            pub fn connack_props_desc(p: &Option<ConnAckProperties>) -> Value {
                let Some(p) = p else { return Value::Null };
                let mut o = Map::new();
                put_u(&mut o, "session_expiry", p.session_expiry_interval);
                put_u(&mut o, "receive_max", p.receive_max);
                put_u(&mut o, "max_qos", p.max_qos);
                put_u(&mut o, "retain_available", p.retain_available);
                put_u(&mut o, "max_packet_size", p.max_packet_size);
                put_s(&mut o, "assigned_client_id", &p.assigned_client_identifier);
                put_u(&mut o, "topic_alias_max", p.topic_alias_max);
                put_s(&mut o, "reason_string", &p.reason_string);
                put_users(&mut o, &p.user_properties);
                put_u(&mut o, "wildcard_sub_available", p.wildcard_subscription_available);
                put_u(&mut o, "subid_available", p.subscription_identifiers_available);
                put_u(&mut o, "shared_sub_available", p.shared_subscription_available);
                put_u(&mut o, "server_keep_alive", p.server_keep_alive);
                put_s(&mut o, "response_info", &p.response_information);
                put_s(&mut o, "server_reference", &p.server_reference);
                put_s(&mut o, "auth_method", &p.authentication_method);
                put_b(&mut o, "auth_data", &p.authentication_data);
                Value::Object(o)
            }

            pub fn publish_props(p: &Value) -> Result<Option<PublishProperties>, String> {
                if p.is_null() {
                    return Ok(None);
                }
                Ok(Some(PublishProperties {
                    payload_format_indicator: opt_u(p, "pfi").map(|x| x as u8),
                    message_expiry_interval: opt_u(p, "expiry").map(|x| x as u32),
                    topic_alias: opt_u(p, "alias").map(|x| x as u16),
                    response_topic: opt_s(p, "response_topic")?,
                    correlation_data: opt_b(p, "correlation")?,
                    user_properties: users(p)?,
                    subscription_identifiers: subids(p),
                    content_type: opt_s(p, "content_type")?,
                }))
            }
            pub fn publish_props_desc(p: &Option<PublishProperties>) -> Value {
                let Some(p) = p else { return Value::Null };
                let mut o = Map::new();
                put_u(&mut o, "pfi", p.payload_format_indicator);
                put_u(&mut o, "expiry", p.message_expiry_interval);
                put_u(&mut o, "alias", p.topic_alias);
                put_s(&mut o, "response_topic", &p.response_topic);
                put_b(&mut o, "correlation", &p.correlation_data);
                put_users(&mut o, &p.user_properties);
                if !p.subscription_identifiers.is_empty() {
                    o.insert("subid".into(), json!(p.subscription_identifiers));
                }
                put_s(&mut o, "content_type", &p.content_type);
                Value::Object(o)
            }

            pub fn subscribe_props(p: &Value) -> Result<Option<SubscribeProperties>, String> {
                if p.is_null() {
                    return Ok(None);
                }
                Ok(Some(SubscribeProperties {
                    id: subids(p).first().copied(),
                    user_properties: users(p)?,
                }))
            }
            pub fn subscribe_props_desc(p: &Option<SubscribeProperties>) -> Value {
                let Some(p) = p else { return Value::Null };
                let mut o = Map::new();
                if let Some(id) = p.id {
                    o.insert("subid".into(), json!([id]));
                }
                put_users(&mut o, &p.user_properties);
                Value::Object(o)
            }

            pub fn unsubscribe_props(p: &Value) -> Result<Option<UnsubscribeProperties>, String> {
                if p.is_null() {
                    return Ok(None);
                }
                Ok(Some(UnsubscribeProperties { user_properties: users(p)? }))
            }
            pub fn unsubscribe_props_desc(p: &Option<UnsubscribeProperties>) -> Value {
                let Some(p) = p else { return Value::Null };
                let mut o = Map::new();
                put_users(&mut o, &p.user_properties);
                Value::Object(o)
            }

            pub fn disconnect_props(p: &Value) -> Result<Option<DisconnectProperties>, String> {
                if p.is_null() {
                    return Ok(None);
                }
                Ok(Some(DisconnectProperties {
                    session_expiry_interval: opt_u(p, "session_expiry").map(|x| x as u32),
                    reason_string: opt_s(p, "reason_string")?,
                    user_properties: users(p)?,
                    server_reference: opt_s(p, "server_reference")?,
                }))
            }
            pub fn disconnect_props_desc(p: &Option<DisconnectProperties>) -> Value {
                let Some(p) = p else { return Value::Null };
                let mut o = Map::new();
                put_u(&mut o, "session_expiry", p.session_expiry_interval);
                put_s(&mut o, "reason_string", &p.reason_string);
                put_users(&mut o, &p.user_properties);
                put_s(&mut o, "server_reference", &p.server_reference);
                Value::Object(o)
            }

            /// `v5` false: v4 filters, options at their defaults
            pub fn filters(d: &Value, v5: bool) -> Result<Vec<Filter>, String> {
                let mut out = Vec::new();
                for f in d["filters"].as_array().ok_or("filters")? {
                    out.push(Filter {
                        path: s_string(&f["path"])?,
                        qos: qos(gu(f, "qos"))?,
                        nolocal: v5 && gb(f, "nolocal"),
                        preserve_retain: v5 && gb(f, "preserve_retain"),
                        retain_forward_rule: match if v5 { gu(f, "retain_forward") } else { 0 } {
                            0 => RetainForwardRule::OnEverySubscribe,
                            1 => RetainForwardRule::OnNewSubscribe,
                            2 => RetainForwardRule::Never,
                            n => return Err(format!("bad retain_forward {n}")),
                        },
                    });
                }
                Ok(out)
            }
            pub fn filters_desc(fs: &[Filter]) -> Value {
                Value::Array(
                    fs.iter()
                        .map(|f| {
                            json!({
                                "path": s_desc(f.path.as_bytes()),
                                "qos": f.qos as u8,
                                "nolocal": f.nolocal,
                                "preserve_retain": f.preserve_retain,
                                "retain_forward": match f.retain_forward_rule {
                                    RetainForwardRule::OnEverySubscribe => 0,
                                    RetainForwardRule::OnNewSubscribe => 1,
                                    RetainForwardRule::Never => 2,
                                },
                            })
                        })
                        .collect(),
                )
            }
        }
    };
}

v5_common!(x5, [rumqttc::v5::mqttbytes::v5], [rumqttc::v5::mqttbytes]);
v5_common!(xd, [rumqttd::protocol], [rumqttd::protocol]);

fn strings(d: &Value, k: &str) -> Result<Vec<String>, String> {
    d[k].as_array().ok_or_else(|| k.to_string())?.iter().map(s_string).collect()
}

fn codes(d: &Value, k: &str) -> Vec<u64> {
    d[k].as_array().map(|a| a.iter().map(|n| n.as_u64().unwrap_or(0)).collect()).unwrap_or_default()
}

fn strings_desc(l: &[String]) -> Value {
    Value::Array(l.iter().map(|s| s_desc(s.as_bytes())).collect())
}

// ------------------------------------------------------------------------------------------------
// c4: rumqttc MQTT 3.1.1
// ------------------------------------------------------------------------------------------------

fn qos_c4(n: u64) -> Result<m4::QoS, String> {
    match n {
        0 => Ok(m4::QoS::AtMostOnce),
        1 => Ok(m4::QoS::AtLeastOnce),
        2 => Ok(m4::QoS::ExactlyOnce),
        n => Err(format!("bad qos {n}")),
    }
}

fn build_c4(d: &Value) -> Result<c4::Packet, String> {
    let pkid = gu(d, "pkid") as u16;
    Ok(match d["t"].as_str().unwrap_or("") {
        "connect" => {
            let w = &d["will"];
            let l = &d["login"];
            c4::Packet::Connect(c4::Connect {
                protocol: m4::Protocol::V4,
                keep_alive: gu(d, "keep_alive") as u16,
                client_id: s_string(&d["client_id"])?,
                clean_session: gb(d, "clean"),
                last_will: if w.is_null() {
                    None
                } else {
                    Some(c4::LastWill {
                        topic: s_string(&w["topic"])?,
                        message: s_b(&w["payload"])?,
                        qos: qos_c4(gu(w, "qos"))?,
                        retain: gb(w, "retain"),
                    })
                },
                login: if l.is_null() {
                    None
                } else {
                    Some(c4::Login { username: s_string(&l["user"])?, password: s_string(&l["pass"])? })
                },
            })
        }
        "connack" => c4::Packet::ConnAck(c4::ConnAck {
            session_present: gb(d, "sp"),
            code: match gu(d, "code") {
                0 => c4::ConnectReturnCode::Success,
                1 => c4::ConnectReturnCode::RefusedProtocolVersion,
                2 => c4::ConnectReturnCode::BadClientId,
                3 => c4::ConnectReturnCode::ServiceUnavailable,
                4 => c4::ConnectReturnCode::BadUserNamePassword,
                5 => c4::ConnectReturnCode::NotAuthorized,
                n => return Err(format!("unsupported v4 connack code {n}")),
            },
        }),
        "publish" => c4::Packet::Publish(c4::Publish {
            dup: gb(d, "dup"),
            qos: qos_c4(gu(d, "qos"))?,
            retain: gb(d, "retain"),
            topic: s_string(&d["topic"])?,
            pkid,
            payload: s_b(&d["payload"])?,
        }),
        "puback" => c4::Packet::PubAck(c4::PubAck { pkid }),
        "pubrec" => c4::Packet::PubRec(c4::PubRec { pkid }),
        "pubrel" => c4::Packet::PubRel(c4::PubRel { pkid }),
        "pubcomp" => c4::Packet::PubComp(c4::PubComp { pkid }),
        "subscribe" => {
            let mut filters = Vec::new();
            for f in d["filters"].as_array().ok_or("filters")? {
                filters.push(c4::SubscribeFilter { path: s_string(&f["path"])?, qos: qos_c4(gu(f, "qos"))? });
            }
            c4::Packet::Subscribe(c4::Subscribe { pkid, filters })
        }
        "suback" => {
            let mut return_codes = Vec::new();
            for c in codes(d, "codes") {
                return_codes.push(match c {
                    0..=2 => c4::SubscribeReasonCode::Success(qos_c4(c)?),
                    128 => c4::SubscribeReasonCode::Failure,
                    n => return Err(format!("unsupported v4 suback code {n}")),
                });
            }
            c4::Packet::SubAck(c4::SubAck { pkid, return_codes })
        }
        "unsubscribe" => c4::Packet::Unsubscribe(c4::Unsubscribe { pkid, topics: strings(d, "filters")? }),
        "unsuback" => c4::Packet::UnsubAck(c4::UnsubAck { pkid }),
        "pingreq" => c4::Packet::PingReq,
        "pingresp" => c4::Packet::PingResp,
        "disconnect" => c4::Packet::Disconnect,
        t => return Err(format!("unknown packet type {t:?}")),
    })
}

fn desc_c4(p: &c4::Packet) -> Value {
    match p {
        c4::Packet::Connect(c) => json!({
            "t": "connect",
            "protocol": match c.protocol { m4::Protocol::V4 => 4, m4::Protocol::V5 => 5 },
            "keep_alive": c.keep_alive,
            "client_id": s_desc(c.client_id.as_bytes()),
            "clean": c.clean_session,
            "will": c.last_will.as_ref().map(|w| json!({
                "topic": s_desc(w.topic.as_bytes()), "payload": s_desc(&w.message), "qos": w.qos as u8, "retain": w.retain})),
            "login": c.login.as_ref().map(|l| json!({
                "user": s_desc(l.username.as_bytes()), "pass": s_desc(l.password.as_bytes())})),
        }),
        c4::Packet::ConnAck(c) => json!({"t": "connack", "sp": c.session_present, "code": match c.code {
            c4::ConnectReturnCode::Success => 0,
            c4::ConnectReturnCode::RefusedProtocolVersion => 1,
            c4::ConnectReturnCode::BadClientId => 2,
            c4::ConnectReturnCode::ServiceUnavailable => 3,
            c4::ConnectReturnCode::BadUserNamePassword => 4,
            c4::ConnectReturnCode::NotAuthorized => 5,
        }}),
        c4::Packet::Publish(p) => json!({
            "t": "publish", "dup": p.dup, "qos": p.qos as u8, "retain": p.retain,
            "topic": s_desc(p.topic.as_bytes()), "pkid": p.pkid, "payload": s_desc(&p.payload),
        }),
        c4::Packet::PubAck(a) => json!({"t": "puback", "pkid": a.pkid}),
        c4::Packet::PubRec(a) => json!({"t": "pubrec", "pkid": a.pkid}),
        c4::Packet::PubRel(a) => json!({"t": "pubrel", "pkid": a.pkid}),
        c4::Packet::PubComp(a) => json!({"t": "pubcomp", "pkid": a.pkid}),
        c4::Packet::Subscribe(s) => json!({
            "t": "subscribe", "pkid": s.pkid,
            "filters": s.filters.iter().map(|f| json!({"path": s_desc(f.path.as_bytes()), "qos": f.qos as u8})).collect::<Vec<_>>(),
        }),
        c4::Packet::SubAck(s) => json!({
            "t": "suback", "pkid": s.pkid,
            "codes": s.return_codes.iter().map(|c| match c {
                c4::SubscribeReasonCode::Success(q) => *q as u8,
                c4::SubscribeReasonCode::Failure => 128,
            }).collect::<Vec<_>>(),
        }),
        c4::Packet::Unsubscribe(u) => json!({"t": "unsubscribe", "pkid": u.pkid, "filters": strings_desc(&u.topics)}),
        c4::Packet::UnsubAck(u) => json!({"t": "unsuback", "pkid": u.pkid}),
        c4::Packet::PingReq => json!({"t": "pingreq"}),
        c4::Packet::PingResp => json!({"t": "pingresp"}),
        c4::Packet::Disconnect => json!({"t": "disconnect"}),
    }
}

// ------------------------------------------------------------------------------------------------
// c5: rumqttc MQTT 5
// ------------------------------------------------------------------------------------------------

fn build_c5(d: &Value) -> Result<c5::Packet, String> {
    let pkid = gu(d, "pkid") as u16;
    let props = &d["props"];
    let reason = gu(d, "reason");
    Ok(match d["t"].as_str().unwrap_or("") {
        "connect" => {
            let w = &d["will"];
            let l = &d["login"];
            let connect = c5::Connect {
                keep_alive: gu(d, "keep_alive") as u16,
                client_id: s_string(&d["client_id"])?,
                clean_start: gb(d, "clean"),
                properties: x5::connect_props(props)?,
            };
            let will = if w.is_null() {
                None
            } else {
                Some(c5::LastWill {
                    topic: s_b(&w["topic"])?,
                    message: s_b(&w["payload"])?,
                    qos: x5::qos(gu(w, "qos"))?,
                    retain: gb(w, "retain"),
                    properties: x5::will_props(&w["will_props"])?,
                })
            };
            let login = if l.is_null() {
                None
            } else {
                Some(c5::Login { username: s_string(&l["user"])?, password: s_string(&l["pass"])? })
            };
            c5::Packet::Connect(connect, will, login)
        }
        "connack" => c5::Packet::ConnAck(c5::ConnAck {
            session_present: gb(d, "sp"),
            code: x5::connack_code(gu(d, "code"))?,
            properties: x5::connack_props(props)?,
        }),
        "publish" => c5::Packet::Publish(c5::Publish {
            dup: gb(d, "dup"),
            qos: x5::qos(gu(d, "qos"))?,
            retain: gb(d, "retain"),
            topic: s_b(&d["topic"])?,
            pkid,
            payload: s_b(&d["payload"])?,
            properties: x5::publish_props(props)?,
        }),
        "puback" => c5::Packet::PubAck(c5::PubAck {
            pkid,
            reason: x5::puback_code(reason)?,
            properties: x5::puback_props(props)?,
        }),
        "pubrec" => c5::Packet::PubRec(c5::PubRec {
            pkid,
            reason: x5::pubrec_code(reason)?,
            properties: x5::pubrec_props(props)?,
        }),
        "pubrel" => c5::Packet::PubRel(c5::PubRel {
            pkid,
            reason: x5::pubrel_code(reason)?,
            properties: x5::pubrel_props(props)?,
        }),
        "pubcomp" => c5::Packet::PubComp(c5::PubComp {
            pkid,
            reason: x5::pubcomp_code(reason)?,
            properties: x5::pubcomp_props(props)?,
        }),
        "subscribe" => c5::Packet::Subscribe(c5::Subscribe {
            pkid,
            filters: x5::filters(d, true)?,
            properties: x5::subscribe_props(props)?,
        }),
        "suback" => {
            let mut return_codes = Vec::new();
            for c in codes(d, "codes") {
                return_codes.push(match c {
                    0..=2 => c5::SubscribeReasonCode::Success(x5::qos(c)?),
                    128 => c5::SubscribeReasonCode::Unspecified,
                    131 => c5::SubscribeReasonCode::ImplementationSpecific,
                    135 => c5::SubscribeReasonCode::NotAuthorized,
                    143 => c5::SubscribeReasonCode::TopicFilterInvalid,
                    145 => c5::SubscribeReasonCode::PkidInUse,
                    151 => c5::SubscribeReasonCode::QuotaExceeded,
                    158 => c5::SubscribeReasonCode::SharedSubscriptionsNotSupported,
                    161 => c5::SubscribeReasonCode::SubscriptionIdNotSupported,
                    162 => c5::SubscribeReasonCode::WildcardSubscriptionsNotSupported,
                    n => return Err(format!("unsupported suback code {n}")),
                });
            }
            c5::Packet::SubAck(c5::SubAck { pkid, return_codes, properties: x5::suback_props(props)? })
        }
        "unsubscribe" => c5::Packet::Unsubscribe(c5::Unsubscribe {
            pkid,
            filters: strings(d, "filters")?,
            properties: x5::unsubscribe_props(props)?,
        }),
        "unsuback" => {
            let mut reasons = Vec::new();
            for c in codes(d, "reasons") {
                reasons.push(x5::unsuback_code(c)?);
            }
            c5::Packet::UnsubAck(c5::UnsubAck { pkid, reasons, properties: x5::unsuback_props(props)? })
        }
        "pingreq" => c5::Packet::PingReq(c5::PingReq),
        "pingresp" => c5::Packet::PingResp(c5::PingResp),
        "disconnect" => c5::Packet::Disconnect(c5::Disconnect {
            reason_code: x5::disconnect_code(reason)?,
            properties: x5::disconnect_props(props)?,
        }),
        t => return Err(format!("unknown packet type {t:?}")),
    })
}

fn desc_c5(p: &c5::Packet) -> Value {
    match p {
        c5::Packet::Auth(_) => json!({"t": "auth"}),
        c5::Packet::Connect(c, w, l) => json!({
            "t": "connect",
            "keep_alive": c.keep_alive,
            "client_id": s_desc(c.client_id.as_bytes()),
            "clean": c.clean_start,
            "will": w.as_ref().map(|w| json!({
                "topic": s_desc(&w.topic), "payload": s_desc(&w.message), "qos": w.qos as u8, "retain": w.retain,
                "will_props": x5::will_props_desc(&w.properties)})),
            "login": l.as_ref().map(|l| json!({
                "user": s_desc(l.username.as_bytes()), "pass": s_desc(l.password.as_bytes())})),
            "props": x5::connect_props_desc(&c.properties),
        }),
        c5::Packet::ConnAck(c) => json!({
            "t": "connack", "sp": c.session_present, "code": x5::connack_num(&c.code),
            "props": x5::connack_props_desc(&c.properties),
        }),
        c5::Packet::Publish(p) => json!({
            "t": "publish", "dup": p.dup, "qos": p.qos as u8, "retain": p.retain,
            "topic": s_desc(&p.topic), "pkid": p.pkid, "payload": s_desc(&p.payload),
            "props": x5::publish_props_desc(&p.properties),
        }),
        c5::Packet::PubAck(a) => json!({
            "t": "puback", "pkid": a.pkid, "reason": x5::puback_num(&a.reason), "props": x5::puback_props_desc(&a.properties)}),
        c5::Packet::PubRec(a) => json!({
            "t": "pubrec", "pkid": a.pkid, "reason": x5::pubrec_num(&a.reason), "props": x5::pubrec_props_desc(&a.properties)}),
        c5::Packet::PubRel(a) => json!({
            "t": "pubrel", "pkid": a.pkid, "reason": x5::pubrel_num(&a.reason), "props": x5::pubrel_props_desc(&a.properties)}),
        c5::Packet::PubComp(a) => json!({
            "t": "pubcomp", "pkid": a.pkid, "reason": x5::pubcomp_num(&a.reason), "props": x5::pubcomp_props_desc(&a.properties)}),
        c5::Packet::Subscribe(s) => json!({
            "t": "subscribe", "pkid": s.pkid, "filters": x5::filters_desc(&s.filters),
            "props": x5::subscribe_props_desc(&s.properties),
        }),
        c5::Packet::SubAck(s) => json!({
            "t": "suback", "pkid": s.pkid,
            "codes": s.return_codes.iter().map(|c| match c {
                c5::SubscribeReasonCode::Success(q) => *q as u64,
                c5::SubscribeReasonCode::Failure => 128,
                c5::SubscribeReasonCode::Unspecified => 128,
                c5::SubscribeReasonCode::ImplementationSpecific => 131,
                c5::SubscribeReasonCode::NotAuthorized => 135,
                c5::SubscribeReasonCode::TopicFilterInvalid => 143,
                c5::SubscribeReasonCode::PkidInUse => 145,
                c5::SubscribeReasonCode::QuotaExceeded => 151,
                c5::SubscribeReasonCode::SharedSubscriptionsNotSupported => 158,
                c5::SubscribeReasonCode::SubscriptionIdNotSupported => 161,
                c5::SubscribeReasonCode::WildcardSubscriptionsNotSupported => 162,
            }).collect::<Vec<_>>(),
            "props": x5::suback_props_desc(&s.properties),
        }),
        c5::Packet::Unsubscribe(u) => json!({
            "t": "unsubscribe", "pkid": u.pkid, "filters": strings_desc(&u.filters),
            "props": x5::unsubscribe_props_desc(&u.properties),
        }),
        c5::Packet::UnsubAck(u) => json!({
            "t": "unsuback", "pkid": u.pkid,
            "reasons": u.reasons.iter().map(x5::unsuback_num).collect::<Vec<_>>(),
            "props": x5::unsuback_props_desc(&u.properties),
        }),
        c5::Packet::PingReq(_) => json!({"t": "pingreq"}),
        c5::Packet::PingResp(_) => json!({"t": "pingresp"}),
        c5::Packet::Disconnect(x) => json!({
            "t": "disconnect", "reason": x5::disconnect_num(&x.reason_code),
            "props": x5::disconnect_props_desc(&x.properties),
        }),
    }
}

// ------------------------------------------------------------------------------------------------
// d4 / d5: rumqttd (one packet type for both versions)
// ------------------------------------------------------------------------------------------------

fn build_d(d: &Value, v: u8) -> Result<dp::Packet, String> {
    let v5 = v == 5;
    let pkid = gu(d, "pkid") as u16;
    let null = Value::Null;
    // v4: every property slot stays None
    let props = if v5 { &d["props"] } else { &null };
    let reason = if v5 { gu(d, "reason") } else { 0 };
    Ok(match d["t"].as_str().unwrap_or("") {
        "connect" => {
            let w = &d["will"];
            let l = &d["login"];
            let connect = dp::Connect {
                keep_alive: gu(d, "keep_alive") as u16,
                client_id: s_string(&d["client_id"])?,
                clean_session: gb(d, "clean"),
            };
            let (will, will_props) = if w.is_null() {
                (None, None)
            } else {
                (
                    Some(dp::LastWill {
                        topic: s_b(&w["topic"])?,
                        message: s_b(&w["payload"])?,
                        qos: xd::qos(gu(w, "qos"))?,
                        retain: gb(w, "retain"),
                    }),
                    if v5 { xd::will_props(&w["will_props"])? } else { None },
                )
            };
            let login = if l.is_null() {
                None
            } else {
                Some(dp::Login { username: s_string(&l["user"])?, password: s_string(&l["pass"])? })
            };
            dp::Packet::Connect(connect, xd::connect_props(props)?, will, will_props, login)
        }
        "connack" => {
            let code = if v5 {
                xd::connack_code(gu(d, "code"))?
            } else {
                match gu(d, "code") {
                    0 => dp::ConnectReturnCode::Success,
                    1 => dp::ConnectReturnCode::RefusedProtocolVersion,
                    2 => dp::ConnectReturnCode::ClientIdentifierNotValid,
                    3 => dp::ConnectReturnCode::ServiceUnavailable,
                    4 => dp::ConnectReturnCode::BadUserNamePassword,
                    5 => dp::ConnectReturnCode::NotAuthorized,
                    n => return Err(format!("unsupported v4 connack code {n}")),
                }
            };
            dp::Packet::ConnAck(dp::ConnAck { session_present: gb(d, "sp"), code }, xd::connack_props(props)?)
        }
        "publish" => {
            let qos = gu(d, "qos");
            if qos > 2 {
                return Err(format!("bad qos {qos}"));
            }
            let topic = s_bytes(&d["topic"])?;
            let payload = s_bytes(&d["payload"])?;
            let p = rumqttd::verif::publish(&topic, &payload, qos as u8, pkid, gb(d, "retain"), gb(d, "dup"));
            dp::Packet::Publish(p, xd::publish_props(props)?)
        }
        "puback" => dp::Packet::PubAck(dp::PubAck { pkid, reason: xd::puback_code(reason)? }, xd::puback_props(props)?),
        "pubrec" => dp::Packet::PubRec(dp::PubRec { pkid, reason: xd::pubrec_code(reason)? }, xd::pubrec_props(props)?),
        "pubrel" => dp::Packet::PubRel(dp::PubRel { pkid, reason: xd::pubrel_code(reason)? }, xd::pubrel_props(props)?),
        "pubcomp" => {
            dp::Packet::PubComp(dp::PubComp { pkid, reason: xd::pubcomp_code(reason)? }, xd::pubcomp_props(props)?)
        }
        "subscribe" => {
            dp::Packet::Subscribe(dp::Subscribe { pkid, filters: xd::filters(d, v5)? }, xd::subscribe_props(props)?)
        }
        "suback" => {
            let mut return_codes = Vec::new();
            for c in codes(d, "codes") {
                // the variants each version's own decoder produces
                return_codes.push(match (v5, c) {
                    (false, 0..=2) => dp::SubscribeReasonCode::Success(xd::qos(c)?),
                    (false, 128) => dp::SubscribeReasonCode::Failure,
                    (true, 0) => dp::SubscribeReasonCode::QoS0,
                    (true, 1) => dp::SubscribeReasonCode::QoS1,
                    (true, 2) => dp::SubscribeReasonCode::QoS2,
                    (true, 128) => dp::SubscribeReasonCode::Unspecified,
                    (true, 131) => dp::SubscribeReasonCode::ImplementationSpecific,
                    (true, 135) => dp::SubscribeReasonCode::NotAuthorized,
                    (true, 143) => dp::SubscribeReasonCode::TopicFilterInvalid,
                    (true, 145) => dp::SubscribeReasonCode::PkidInUse,
                    (true, 151) => dp::SubscribeReasonCode::QuotaExceeded,
                    (true, 158) => dp::SubscribeReasonCode::SharedSubscriptionsNotSupported,
                    (true, 161) => dp::SubscribeReasonCode::SubscriptionIdNotSupported,
                    (true, 162) => dp::SubscribeReasonCode::WildcardSubscriptionsNotSupported,
                    (_, n) => return Err(format!("unsupported suback code {n}")),
                });
            }
            dp::Packet::SubAck(dp::SubAck { pkid, return_codes }, xd::suback_props(props)?)
        }
        "unsubscribe" => dp::Packet::Unsubscribe(
            dp::Unsubscribe { pkid, filters: strings(d, "filters")? },
            xd::unsubscribe_props(props)?,
        ),
        "unsuback" => {
            let mut reasons = Vec::new();
            if v5 {
                for c in codes(d, "reasons") {
                    reasons.push(xd::unsuback_code(c)?);
                }
            }
            dp::Packet::UnsubAck(dp::UnsubAck { pkid, reasons }, xd::unsuback_props(props)?)
        }
        "pingreq" => dp::Packet::PingReq(dp::PingReq),
        "pingresp" => dp::Packet::PingResp(dp::PingResp),
        "disconnect" => dp::Packet::Disconnect(
            dp::Disconnect { reason_code: xd::disconnect_code(reason)? },
            xd::disconnect_props(props)?,
        ),
        t => return Err(format!("unknown packet type {t:?}")),
    })
}

fn desc_d(p: &dp::Packet, v: u8) -> Value {
    match p {
        dp::Packet::Connect(c, props, w, wp, l) => json!({
            "t": "connect",
            "keep_alive": c.keep_alive,
            "client_id": s_desc(c.client_id.as_bytes()),
            "clean": c.clean_session,
            "will": w.as_ref().map(|w| json!({
                "topic": s_desc(&w.topic), "payload": s_desc(&w.message), "qos": w.qos as u8, "retain": w.retain,
                "will_props": xd::will_props_desc(wp)})),
            "login": l.as_ref().map(|l| json!({
                "user": s_desc(l.username.as_bytes()), "pass": s_desc(l.password.as_bytes())})),
            "props": xd::connect_props_desc(props),
        }),
        dp::Packet::ConnAck(c, props) => {
            let code = if v == 5 {
                xd::connack_num(&c.code)
            } else {
                match c.code {
                    dp::ConnectReturnCode::Success => 0,
                    dp::ConnectReturnCode::RefusedProtocolVersion => 1,
                    dp::ConnectReturnCode::ClientIdentifierNotValid => 2,
                    dp::ConnectReturnCode::ServiceUnavailable => 3,
                    dp::ConnectReturnCode::BadUserNamePassword => 4,
                    dp::ConnectReturnCode::NotAuthorized => 5,
                    _ => 999,
                }
            };
            json!({"t": "connack", "sp": c.session_present, "code": code, "props": xd::connack_props_desc(props)})
        }
        dp::Packet::Publish(p, props) => {
            let (dup, qos, pkid) = rumqttd::verif::publish_parts(p);
            json!({
                "t": "publish", "dup": dup, "qos": qos, "retain": p.retain,
                "topic": s_desc(&p.topic), "pkid": pkid, "payload": s_desc(&p.payload),
                "props": xd::publish_props_desc(props),
            })
        }
        dp::Packet::PubAck(a, props) => json!({
            "t": "puback", "pkid": a.pkid, "reason": xd::puback_num(&a.reason), "props": xd::puback_props_desc(props)}),
        dp::Packet::PubRec(a, props) => json!({
            "t": "pubrec", "pkid": a.pkid, "reason": xd::pubrec_num(&a.reason), "props": xd::pubrec_props_desc(props)}),
        dp::Packet::PubRel(a, props) => json!({
            "t": "pubrel", "pkid": a.pkid, "reason": xd::pubrel_num(&a.reason), "props": xd::pubrel_props_desc(props)}),
        dp::Packet::PubComp(a, props) => json!({
            "t": "pubcomp", "pkid": a.pkid, "reason": xd::pubcomp_num(&a.reason), "props": xd::pubcomp_props_desc(props)}),
        dp::Packet::Subscribe(s, props) => json!({
            "t": "subscribe", "pkid": s.pkid, "filters": xd::filters_desc(&s.filters),
            "props": xd::subscribe_props_desc(props),
        }),
        dp::Packet::SubAck(s, props) => json!({
            "t": "suback", "pkid": s.pkid,
            "codes": s.return_codes.iter().map(|c| match c {
                dp::SubscribeReasonCode::Success(q) => *q as u64,
                dp::SubscribeReasonCode::Failure => 128,
                dp::SubscribeReasonCode::QoS0 => 0,
                dp::SubscribeReasonCode::QoS1 => 1,
                dp::SubscribeReasonCode::QoS2 => 2,
                dp::SubscribeReasonCode::Unspecified => 128,
                dp::SubscribeReasonCode::ImplementationSpecific => 131,
                dp::SubscribeReasonCode::NotAuthorized => 135,
                dp::SubscribeReasonCode::TopicFilterInvalid => 143,
                dp::SubscribeReasonCode::PkidInUse => 145,
                dp::SubscribeReasonCode::QuotaExceeded => 151,
                dp::SubscribeReasonCode::SharedSubscriptionsNotSupported => 158,
                dp::SubscribeReasonCode::SubscriptionIdNotSupported => 161,
                dp::SubscribeReasonCode::WildcardSubscriptionsNotSupported => 162,
            }).collect::<Vec<_>>(),
            "props": xd::suback_props_desc(props),
        }),
        dp::Packet::Unsubscribe(u, props) => json!({
            "t": "unsubscribe", "pkid": u.pkid, "filters": strings_desc(&u.filters),
            "props": xd::unsubscribe_props_desc(props),
        }),
        dp::Packet::UnsubAck(u, props) => json!({
            "t": "unsuback", "pkid": u.pkid,
            "reasons": u.reasons.iter().map(xd::unsuback_num).collect::<Vec<_>>(),
            "props": xd::unsuback_props_desc(props),
        }),
        dp::Packet::PingReq(_) => json!({"t": "pingreq"}),
        dp::Packet::PingResp(_) => json!({"t": "pingresp"}),
        dp::Packet::Disconnect(x, props) => json!({
            "t": "disconnect", "reason": xd::disconnect_num(&x.reason_code),
            "props": xd::disconnect_props_desc(props),
        }),
    }
}

// ------------------------------------------------------------------------------------------------
// the four codecs behind one interface
// ------------------------------------------------------------------------------------------------

#[derive(Clone, Copy, PartialEq, Eq, Debug)]
enum Codec {
    C4,
    C5,
    D4,
    D5,
}

impl Codec {
    fn of(v: u8, broker: bool) -> Option<Codec> {
        match (v, broker) {
            (4, false) => Some(Codec::C4),
            (5, false) => Some(Codec::C5),
            (4, true) => Some(Codec::D4),
            (5, true) => Some(Codec::D5),
            _ => None,
        }
    }
    fn name(self) -> &'static str {
        match self {
            Codec::C4 => "c4",
            Codec::C5 => "c5",
            Codec::D4 => "d4",
            Codec::D5 => "d5",
        }
    }
}

struct Encoded {
    bytes: Vec<u8>,
    /// what `write` returned
    ret: usize,
    /// `size()` of the packet (client codecs only)
    size: Option<usize>,
}

/// Build (from a canonical description) and encode. Err = text of the failed check.
fn encode(codec: Codec, d: &Value) -> Result<Encoded, String> {
    let who = codec.name();
    match codec {
        Codec::C4 => {
            let p = guarded(|| build_c4(d)).map_err(|e| format!("{who}_build_panic: {e}"))?.map_err(|e| format!("{who}_build: {e}"))?;
            let size = guarded(|| p.size()).map_err(|e| format!("{who}_size_panic: {e}"))?;
            let (r, bytes) = guarded(|| {
                let mut b = BytesMut::new();
                let r = p.write(&mut b, usize::MAX);
                (r, b.to_vec())
            })
            .map_err(|e| format!("{who}_write_panic: {e}"))?;
            let ret = r.map_err(|e| format!("{who}_write_err: {e:?} (after {} bytes)", bytes.len()))?;
            Ok(Encoded { bytes, ret, size: Some(size) })
        }
        Codec::C5 => {
            let p = guarded(|| build_c5(d)).map_err(|e| format!("{who}_build_panic: {e}"))?.map_err(|e| format!("{who}_build: {e}"))?;
            let size = guarded(|| p.size()).map_err(|e| format!("{who}_size_panic: {e}"))?;
            let (r, bytes) = guarded(|| {
                let mut b = BytesMut::new();
                let r = p.write(&mut b, None);
                (r, b.to_vec())
            })
            .map_err(|e| format!("{who}_write_panic: {e}"))?;
            let ret = r.map_err(|e| format!("{who}_write_err: {e:?} (after {} bytes)", bytes.len()))?;
            Ok(Encoded { bytes, ret, size: Some(size) })
        }
        Codec::D4 | Codec::D5 => {
            let v = if codec == Codec::D4 { 4 } else { 5 };
            let p = guarded(|| build_d(d, v)).map_err(|e| format!("{who}_build_panic: {e}"))?.map_err(|e| format!("{who}_build: {e}"))?;
            let (r, bytes) = guarded(|| {
                let mut b = BytesMut::new();
                let r = if v == 4 { dp::v4::V4.write(p, &mut b) } else { dp::v5::V5.write(p, &mut b) };
                (r, b.to_vec())
            })
            .map_err(|e| format!("{who}_write_panic: {e}"))?;
            let ret = r.map_err(|e| format!("{who}_write_err: {e:?} (after {} bytes)", bytes.len()))?;
            Ok(Encoded { bytes, ret, size: None })
        }
    }
}

enum Outcome {
    Packet(Value),
    Need(usize),
    Error(String),
    Panic(String),
}

/// The Codec (Decoder) verdicts must be the verdict of Packet::read with the *incoming* limit, and leave the same bytes
fn agree(direct: Outcome, verdicts: Vec<(Outcome, usize)>, left: usize, what: &str) -> Outcome {
    for (v, l) in verdicts {
        let same = match (&direct, &v) {
            (Outcome::Packet(a), Outcome::Packet(b)) => a == b && l == left,
            (Outcome::Need(_), Outcome::Need(_)) => true,
            (Outcome::Error(a), Outcome::Error(b)) => a == b,
            _ => false,
        };
        if !same {
            // reported as what the event loop would see
            return match v { Outcome::Need(_) => Outcome::Error(format!("{what}::decode asks for more bytes where Packet::read with the incoming limit does not")), o => o };
        }
    }
    direct
}

/// One decoder call. `max` 0 = no limit.
fn decode_one(codec: Codec, buf: &mut BytesMut, max: u64) -> Outcome {
    let max_usize = if max == 0 { usize::MAX / 2 } else { max as usize };
    let r = guarded(|| match codec {
        // the client decoders are entered the way the event loop enters them: through the tokio_util Decoder of the public Codec
        // (which maps InsufficientBytes to Ok(None)), with an outgoing limit that differs from the incoming one in either
        // direction; Packet::read on a copy supplies the number of bytes asked for and must agree with the Codec's verdict
        Codec::C4 => {
            use tokio_util::codec::Decoder;
            let mut verdicts = Vec::new();
            for out_limit in [max_usize.saturating_mul(4).saturating_add(64), 1usize] {
                let mut copy = buf.clone();
                let mut codec = c4::Codec { max_incoming_size: max_usize, max_outgoing_size: out_limit };
                verdicts.push((match codec.decode(&mut copy) { Ok(Some(p)) => Outcome::Packet(desc_c4(&p)), Ok(None) => Outcome::Need(0), Err(e) => Outcome::Error(format!("{e:?}")) }, copy.len()));
            }
            let direct = match c4::Packet::read(buf, max_usize) {
                Ok(p) => Outcome::Packet(desc_c4(&p)),
                Err(m4::Error::InsufficientBytes(n)) => Outcome::Need(n),
                Err(e) => Outcome::Error(format!("{e:?}")),
            };
            agree(direct, verdicts, buf.len(), "rumqttc::mqttbytes::v4::Codec")
        }
        Codec::C5 => {
            use tokio_util::codec::Decoder;
            let lim = if max == 0 { None } else { Some(max as u32) };
            let mut verdicts = Vec::new();
            for out_limit in [lim.map(|m| m.saturating_mul(4).saturating_add(64)), Some(1u32)] {
                let mut copy = buf.clone();
                let mut codec = c5::Codec { max_incoming_size: lim, max_outgoing_size: out_limit };
                verdicts.push((match codec.decode(&mut copy) { Ok(Some(p)) => Outcome::Packet(desc_c5(&p)), Ok(None) => Outcome::Need(0), Err(e) => Outcome::Error(format!("{e:?}")) }, copy.len()));
            }
            let direct = match c5::Packet::read(buf, lim) {
                Ok(p) => Outcome::Packet(desc_c5(&p)),
                Err(m5::Error::InsufficientBytes(n)) => Outcome::Need(n),
                Err(e) => Outcome::Error(format!("{e:?}")),
            };
            agree(direct, verdicts, buf.len(), "rumqttc::v5::mqttbytes::v5::Codec")
        }
        Codec::D4 => match dp::v4::V4.read_mut(buf, max_usize) {
            Ok(p) => Outcome::Packet(desc_d(&p, 4)),
            Err(dp::Error::InsufficientBytes(n)) => Outcome::Need(n),
            Err(e) => Outcome::Error(format!("{e:?}")),
        },
        Codec::D5 => match dp::v5::V5.read_mut(buf, max_usize) {
            Ok(p) => Outcome::Packet(desc_d(&p, 5)),
            Err(dp::Error::InsufficientBytes(n)) => Outcome::Need(n),
            Err(e) => Outcome::Error(format!("{e:?}")),
        },
    });
    match r {
        Ok(o) => o,
        Err(p) => Outcome::Panic(p),
    }
}

// ------------------------------------------------------------------------------------------------
// roundtrip
// ------------------------------------------------------------------------------------------------

fn rle(b: &[u8]) -> Vec<[u64; 2]> {
    let mut out: Vec<[u64; 2]> = Vec::new();
    for x in b {
        match out.last_mut() {
            Some(last) if last[0] == *x as u64 => last[1] += 1,
            _ => out.push([*x as u64, 1]),
        }
    }
    out
}

fn check_vector(v: u8, p: &Value, fails: &mut Vec<String>) -> (Vec<u8>, usize) {
    let (Some(client), Some(broker)) = (Codec::of(v, false), Codec::of(v, true)) else {
        fails.push(format!("bad_vector: version {v}"));
        return (Vec::new(), 0);
    };
    let want = normalise(v, p);

    // a, b: build and encode with both copies
    let enc_c = encode(client, &want);
    let enc_d = encode(broker, &want);
    if let Ok(e) = &enc_c {
        if e.size != Some(e.bytes.len()) {
            fails.push(format!("client_size: size()={} wrote={}", e.size.unwrap_or(0), e.bytes.len()));
        }
        if e.ret != e.bytes.len() {
            fails.push(format!("client_write_ret: ret={} wrote={}", e.ret, e.bytes.len()));
        }
    }
    if let Ok(e) = &enc_d {
        if e.ret != e.bytes.len() {
            fails.push(format!("broker_write_ret: ret={} wrote={}", e.ret, e.bytes.len()));
        }
    }

    // c: identical bytes
    if let (Ok(c), Ok(d)) = (&enc_c, &enc_d) {
        if c.bytes != d.bytes {
            let off = c.bytes.iter().zip(&d.bytes).position(|(a, b)| a != b).unwrap_or(c.bytes.len().min(d.bytes.len()));
            fails.push(format!("bytes_differ@{off} (client_len={} broker_len={})", c.bytes.len(), d.bytes.len()));
        }
    }

    // d: both decoders on both encodings
    let identical = matches!((&enc_c, &enc_d), (Ok(c), Ok(d)) if c.bytes == d.bytes);
    for (label, enc, skip) in [("client_bytes", &enc_c, false), ("broker_bytes", &enc_d, identical)] {
        let e = match enc {
            Ok(e) => e,
            Err(msg) => {
                fails.push(msg.clone());
                continue;
            }
        };
        if skip {
            continue; // same bytes as the client's, same verdicts
        }
        for dec in [client, broker] {
            let tag = format!("dec[{label}/{}]", dec.name());
            let mut buf = BytesMut::from(&e.bytes[..]);
            match decode_one(dec, &mut buf, 0) {
                Outcome::Packet(got) => {
                    if !buf.is_empty() {
                        fails.push(format!("{tag}: leftover {} of {} bytes", buf.len(), e.bytes.len()));
                    }
                    if let Some(m) = diff("p", &normalise(v, &got), &want) {
                        fails.push(format!("{tag}: mismatch {m}"));
                    }
                }
                Outcome::Need(n) => fails.push(format!("{tag}: need {n} more bytes")),
                Outcome::Error(err) => fails.push(format!("{tag}: error {err}")),
                Outcome::Panic(msg) => fails.push(format!("{tag}: panic {msg}")),
            }
        }
    }

    let blen = enc_d.as_ref().map(|e| e.bytes.len()).unwrap_or(0);
    (enc_c.map(|e| e.bytes).unwrap_or_default(), blen)
}

fn roundtrip(path: &str, out_path: &str) {
    let text = std::fs::read_to_string(path).expect("vectors");
    let mut out = std::io::BufWriter::new(std::fs::File::create(out_path).expect("results"));
    let (mut n, mut n_ok) = (0u64, 0u64);
    let mut first_fails: Vec<Value> = Vec::new();
    for (i, line) in text.lines().enumerate() {
        if line.trim().is_empty() {
            continue;
        }
        n += 1;
        let mut fails = Vec::new();
        let (bytes, blen) = match serde_json::from_str::<Value>(line) {
            Ok(vec) => {
                let v = gu(&vec, "v") as u8;
                match guarded(|| {
                    let mut f = Vec::new();
                    let r = check_vector(v, &vec["p"], &mut f);
                    (r, f)
                }) {
                    Ok((r, f)) => {
                        fails = f;
                        r
                    }
                    Err(p) => {
                        fails.push(format!("harness_panic: {p}"));
                        (Vec::new(), 0)
                    }
                }
            }
            Err(e) => {
                fails.push(format!("bad_vector: {e}"));
                (Vec::new(), 0)
            }
        };
        let ok = fails.is_empty();
        let res = json!({
            "i": i + 1, "ok": ok, "fails": fails, "len": bytes.len(), "blen": blen,
            "rle": rle(&bytes), "hex_prefix": hex(&bytes[..bytes.len().min(16)]),
        });
        writeln!(out, "{res}").unwrap();
        if ok {
            n_ok += 1;
        } else if first_fails.len() < 10 {
            first_fails.push(res);
        }
    }
    out.flush().unwrap();
    println!("{}", json!({"vectors": n, "ok": n_ok, "failed": n - n_ok, "first_fails": first_fails}));
}

// ------------------------------------------------------------------------------------------------
// decode: framed reader over chunked input
// ------------------------------------------------------------------------------------------------

fn decode(path: &str, out_path: &str) {
    let text = std::fs::read_to_string(path).expect("inputs");
    let mut out = std::io::BufWriter::new(std::fs::File::create(out_path).expect("results"));
    let (mut n, mut n_panics, mut n_errors, mut n_packets) = (0u64, 0u64, 0u64, 0u64);
    for (i, line) in text.lines().enumerate() {
        if line.trim().is_empty() {
            continue;
        }
        n += 1;
        let input: Value = match serde_json::from_str(line) {
            Ok(x) => x,
            Err(e) => {
                writeln!(out, "{}", json!({"i": i + 1, "bad_input": e.to_string(), "calls": [], "packets": [], "final_buffered": 0})).unwrap();
                continue;
            }
        };
        let codec = Codec::of(gu(&input, "v") as u8, input["side"].as_str() == Some("broker"));
        let bytes = input["hex"].as_str().ok_or("hex".to_string()).and_then(unhex);
        let (codec, bytes) = match (codec, bytes) {
            (Some(c), Ok(b)) => (c, b),
            (c, b) => {
                let why = if c.is_none() { "version".to_string() } else { b.err().unwrap_or_default() };
                writeln!(out, "{}", json!({"i": i + 1, "bad_input": why, "calls": [], "packets": [], "final_buffered": 0})).unwrap();
                continue;
            }
        };
        let max = gu(&input, "max");
        // chunk boundaries: clipped to the input, remainder (or everything) as a last chunk
        let mut chunks: Vec<usize> = Vec::new();
        let mut left = bytes.len();
        for k in codes(&input, "chunks") {
            let k = (k as usize).min(left);
            chunks.push(k);
            left -= k;
        }
        if left > 0 || chunks.is_empty() {
            chunks.push(left);
        }

        let mut buf = BytesMut::new();
        let mut calls: Vec<Value> = Vec::new();
        let mut packets: Vec<Value> = Vec::new();
        let mut at = 0;
        let mut closed = false;
        for k in chunks {
            buf.extend_from_slice(&bytes[at..at + k]);
            at += k;
            while !buf.is_empty() {
                let before = buf.len();
                let o = decode_one(codec, &mut buf, max);
                let consumed = before as i64 - buf.len() as i64;
                let mut call = json!({"buffered": before, "consumed": consumed});
                let mut more = true;
                match o {
                    Outcome::Packet(desc) => {
                        call["outcome"] = json!("packet");
                        call["desc"] = desc.clone();
                        packets.push(desc);
                        n_packets += 1;
                        more = consumed > 0; // a decoder that yields packets out of nothing would never stop
                    }
                    Outcome::Need(need) => {
                        call["outcome"] = json!("need");
                        call["need"] = json!(need);
                        more = false;
                    }
                    Outcome::Error(err) => {
                        call["outcome"] = json!("error");
                        call["err"] = json!(err);
                        n_errors += 1;
                        closed = true;
                    }
                    Outcome::Panic(msg) => {
                        call["outcome"] = json!("panic");
                        call["err"] = json!(msg);
                        n_panics += 1;
                        closed = true;
                    }
                }
                calls.push(call);
                if closed || !more {
                    break;
                }
            }
            if closed {
                break;
            }
        }
        writeln!(out, "{}", json!({"i": i + 1, "calls": calls, "packets": packets, "final_buffered": buf.len()})).unwrap();
    }
    out.flush().unwrap();
    println!("{}", json!({"inputs": n, "panics": n_panics, "errors": n_errors, "packets": n_packets}));
}

// ------------------------------------------------------------------------------------------------
// cross: what the routing core hands to a link (a packet that may carry MQTT 5 properties) encoded by the
// link's protocol, whichever it is (C20)
// ------------------------------------------------------------------------------------------------
fn cross(path: &str, out_path: &str) {
    let text = std::fs::read_to_string(path).expect("input");
    let mut out = std::io::BufWriter::new(std::fs::File::create(out_path).expect("output"));
    let (mut n, mut bad) = (0u64, Vec::new());
    for (i, line) in text.lines().filter(|l| !l.trim().is_empty()).enumerate() {
        let v: Value = serde_json::from_str(line).unwrap();
        let d = normalise(5, &v["p"]);
        let mut fails: Vec<String> = Vec::new();
        for target in [4u8, 5u8] {
            // the router's packet value carries the properties whatever the link's protocol is
            let built = guarded(|| build_d(&d, 5));
            let p = match built {
                Ok(Ok(p)) => p,
                Ok(Err(e)) => { fails.push(format!("build: {e}")); continue; }
                Err(e) => { fails.push(format!("build_panic: {e}")); continue; }
            };
            let w = guarded(|| {
                let mut b = BytesMut::new();
                let r = if target == 4 { dp::v4::V4.write(p, &mut b) } else { dp::v5::V5.write(p, &mut b) };
                (r.map_err(|e| format!("{e:?}")), b)
            });
            let mut bytes = match w {
                Ok((Ok(_), b)) => b,
                Ok((Err(e), _)) => { fails.push(format!("write_v{target}_err: {e}")); continue; }
                Err(e) => { fails.push(format!("write_v{target}_panic: {e}")); continue; }
            };
            let codec = if target == 4 { Codec::C4 } else { Codec::C5 };
            match decode_one(codec, &mut bytes, 0) {
                Outcome::Packet(got) => {
                    let want = normalise(target, &d);
                    let got = normalise(target, &got);
                    if let Some(m) = diff("p", &got, &want) { fails.push(format!("v{target}_client_sees: {m}")); }
                    if !bytes.is_empty() { fails.push(format!("v{target}_left {} bytes", bytes.len())); }
                }
                Outcome::Need(k) => fails.push(format!("v{target}_client_decode: need {k}")),
                Outcome::Error(e) => fails.push(format!("v{target}_client_decode: error {e}")),
                Outcome::Panic(e) => fails.push(format!("v{target}_client_decode: panic {e}")),
            }
        }
        n += 1;
        let r = json!({"i": i + 1, "ok": fails.is_empty(), "fails": fails, "p": short(&d)});
        if !r["ok"].as_bool().unwrap() && bad.len() < 10 { bad.push(r.clone()); }
        writeln!(out, "{}", r).unwrap();
    }
    out.flush().unwrap();
    println!("{}", json!({"vectors": n, "failed_sample": bad.len(), "first_fails": bad}));
}

fn main() {
    quiet_panics();
    let args: Vec<String> = std::env::args().collect();
    match (args.get(1).map(|s| s.as_str()), args.get(2), args.get(3)) {
        (Some("roundtrip"), Some(i), Some(o)) => roundtrip(i, o),
        (Some("decode"), Some(i), Some(o)) => decode(i, o),
        (Some("cross"), Some(i), Some(o)) => cross(i, o),
        _ => {
            eprintln!("usage: codecs roundtrip <vectors.ndjson> <results.ndjson> | codecs decode <inputs.ndjson> <results.ndjson>");
            std::process::exit(2);
        }
    }
}
