pub mod util;
pub mod client;
