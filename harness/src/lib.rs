pub mod util;
