//! Shared helpers for the harness binaries.
use std::panic::{catch_unwind, AssertUnwindSafe};

/// Runs `f`, turning a panic in the code under test into data.
pub fn guarded<T>(f: impl FnOnce() -> T) -> Result<T, String> {
    catch_unwind(AssertUnwindSafe(f)).map_err(|e| {
        if let Some(s) = e.downcast_ref::<&str>() {
            s.to_string()
        } else if let Some(s) = e.downcast_ref::<String>() {
            s.clone()
        } else {
            "panic".to_string()
        }
    })
}

/// Silences the default panic message (panics are reported as data)
pub fn quiet_panics() {
    std::panic::set_hook(Box::new(|_| {}));
}
