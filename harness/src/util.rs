//! Shared helpers for the harness binaries.
use std::panic::{catch_unwind, AssertUnwindSafe};

/// Runs `f`, turning a panic in the code under test into data.
pub fn guarded<T>(f: impl FnOnce() -> T) -> Result<T, String> {
    catch_unwind(AssertUnwindSafe(f)).map_err(|e| {
        if let Some(s) = e.downcast_ref::<&str>() {
            s.to_string()
        } else if let Some(s) = e.downcast_ref::<String>() {
            s.clone()
        } else {
            "panic".to_string()
        }
    })
}

/// Silences the default panic message (panics are reported as data)
pub fn quiet_panics() {
    if std::env::var("VERIF_LOUD").is_ok() {
        return;
    }
    std::panic::set_hook(Box::new(|_| {}));
}

/// Panic messages with their location (set VERIF_LOUD to also see them on stderr)
pub fn panic_location_hook() -> std::sync::Arc<std::sync::Mutex<Option<String>>> {
    let last = std::sync::Arc::new(std::sync::Mutex::new(None));
    let l2 = last.clone();
    std::panic::set_hook(Box::new(move |info| {
        let loc = info.location().map(|l| format!("{}:{}", l.file(), l.line())).unwrap_or_default();
        *l2.lock().unwrap() = Some(loc);
    }));
    last
}
