//! Uniform view of rumqttc's two MqttState copies (v4, v5) for the conformance harness.
//! A packet/request is the record used by ClientState.tla: {t, id, q, m}.
use serde::{Deserialize, Serialize};
use serde_json::{json, Value};

#[derive(Clone, Debug, PartialEq, Eq, Serialize, Deserialize, Hash)]
pub struct Pk {
    pub t: String,
    pub id: u16,
    pub q: u8,
    pub m: u32,
}

pub fn pk(t: &str, id: u16, q: u8, m: u32) -> Pk {
    Pk { t: t.to_string(), id, q, m }
}

pub fn nopk() -> Pk {
    pk("none", 0, 0, 0)
}

#[derive(Clone, Debug, PartialEq, Eq, Serialize)]
pub struct Ev {
    pub k: String,
    pub t: String,
    pub id: u16,
}

#[derive(Clone, Debug, Serialize)]
pub struct CallResult {
    pub wr: Vec<Pk>,
    pub ev: Vec<Ev>,
    pub err: String,
}

fn msg_of(payload: &[u8]) -> u32 {
    std::str::from_utf8(payload).ok().and_then(|s| s.parse().ok()).unwrap_or(0)
}

pub trait Sm {
    fn out(&mut self, p: &Pk) -> CallResult;
    fn inp(&mut self, p: &Pk) -> CallResult;
    fn clean(&mut self) -> Vec<Pk>;
    /// what clean() would return now (on a clone)
    fn pending_snapshot(&self) -> Vec<Pk>;
    fn vis(&self) -> Value;
}

pub mod v4 {
    use super::*;
    use rumqttc::*;

    pub fn qos(q: u8) -> QoS {
        match q {
            0 => QoS::AtMostOnce,
            1 => QoS::AtLeastOnce,
            _ => QoS::ExactlyOnce,
        }
    }

    pub fn publish(p: &Pk) -> Publish {
        let mut publish = Publish::new("t", qos(p.q), p.m.to_string().into_bytes());
        publish.pkid = p.id;
        publish
    }

    pub fn request(p: &Pk) -> Request {
        match p.t.as_str() {
            "publish" => Request::Publish(publish(p)),
            "pubrel" => Request::PubRel(PubRel::new(p.id)),
            "subscribe" => Request::Subscribe(Subscribe::new("a", QoS::AtMostOnce)),
            "unsubscribe" => Request::Unsubscribe(Unsubscribe::new("a")),
            "pingreq" => Request::PingReq(PingReq),
            "disconnect" => Request::Disconnect(Disconnect),
            "puback" => Request::PubAck(PubAck::new(p.id)),
            "pubrec" => Request::PubRec(PubRec::new(p.id)),
            other => panic!("harness: no request {other}"),
        }
    }

    pub fn packet(p: &Pk) -> Packet {
        match p.t.as_str() {
            "publish" => Packet::Publish(publish(p)),
            "puback" => Packet::PubAck(PubAck::new(p.id)),
            "pubrec" => Packet::PubRec(PubRec::new(p.id)),
            "pubrel" => Packet::PubRel(PubRel::new(p.id)),
            "pubcomp" => Packet::PubComp(PubComp::new(p.id)),
            "suback" => Packet::SubAck(SubAck::new(p.id, vec![SubscribeReasonCode::Success(QoS::AtMostOnce)])),
            "unsuback" => Packet::UnsubAck(UnsubAck::new(p.id)),
            "pingresp" => Packet::PingResp,
            "pingreq" => Packet::PingReq,
            "connack" => Packet::ConnAck(ConnAck::new(ConnectReturnCode::Success, false)),
            "disconnect" => Packet::Disconnect,
            other => panic!("harness: no packet {other}"),
        }
    }

    pub fn unpacket(p: &Packet) -> Pk {
        match p {
            Packet::Publish(x) => pk("publish", x.pkid, x.qos as u8, msg_of(&x.payload)),
            Packet::PubAck(x) => pk("puback", x.pkid, 0, 0),
            Packet::PubRec(x) => pk("pubrec", x.pkid, 0, 0),
            Packet::PubRel(x) => pk("pubrel", x.pkid, 0, 0),
            Packet::PubComp(x) => pk("pubcomp", x.pkid, 0, 0),
            Packet::Subscribe(x) => pk("subscribe", x.pkid, 0, 0),
            Packet::Unsubscribe(x) => pk("unsubscribe", x.pkid, 0, 0),
            Packet::SubAck(x) => pk("suback", x.pkid, 0, 0),
            Packet::UnsubAck(x) => pk("unsuback", x.pkid, 0, 0),
            Packet::PingReq => pk("pingreq", 0, 0, 0),
            Packet::PingResp => pk("pingresp", 0, 0, 0),
            Packet::Disconnect => pk("disconnect", 0, 0, 0),
            Packet::ConnAck(_) => pk("connack", 0, 0, 0),
            Packet::Connect(_) => pk("connect", 0, 0, 0),
        }
    }

    pub fn unrequest(r: &Request) -> Pk {
        match r {
            Request::Publish(x) => pk("publish", x.pkid, x.qos as u8, msg_of(&x.payload)),
            Request::PubRel(x) => pk("pubrel", x.pkid, 0, 0),
            Request::PubAck(x) => pk("puback", x.pkid, 0, 0),
            Request::PubRec(x) => pk("pubrec", x.pkid, 0, 0),
            Request::Subscribe(x) => pk("subscribe", x.pkid, 0, 0),
            Request::Unsubscribe(x) => pk("unsubscribe", x.pkid, 0, 0),
            Request::PingReq(_) => pk("pingreq", 0, 0, 0),
            Request::Disconnect(_) => pk("disconnect", 0, 0, 0),
            _ => pk("other", 0, 0, 0),
        }
    }

    pub fn event(e: &Event) -> Ev {
        match e {
            Event::Incoming(p) => {
                let x = unpacket(p);
                Ev { k: "in".into(), t: x.t, id: x.id }
            }
            Event::Outgoing(o) => {
                let (t, id) = match o {
                    Outgoing::Publish(i) => ("publish", *i),
                    Outgoing::Subscribe(i) => ("subscribe", *i),
                    Outgoing::Unsubscribe(i) => ("unsubscribe", *i),
                    Outgoing::PubAck(i) => ("puback", *i),
                    Outgoing::PubRec(i) => ("pubrec", *i),
                    Outgoing::PubRel(i) => ("pubrel", *i),
                    Outgoing::PubComp(i) => ("pubcomp", *i),
                    Outgoing::PingReq => ("pingreq", 0),
                    Outgoing::PingResp => ("pingresp", 0),
                    Outgoing::Disconnect => ("disconnect", 0),
                    Outgoing::AwaitAck(i) => ("awaitack", *i),
                };
                Ev { k: "out".into(), t: t.into(), id }
            }
        }
    }

    pub fn err_name(e: &StateError) -> String {
        match e {
            StateError::Unsolicited(_) => "Unsolicited",
            StateError::AwaitPingResp => "AwaitPingResp",
            StateError::WrongPacket => "WrongPacket",
            StateError::CollisionTimeout => "CollisionTimeout",
            StateError::EmptySubscription => "EmptySubscription",
            StateError::ConnectionAborted => "ConnectionAborted",
            StateError::Deserialization(_) => "Deserialization",
            StateError::Io(_) => "Io",
            StateError::InvalidState => "InvalidState",
        }
        .to_string()
    }

    /// error of EventLoop::poll: a state error by name, "lost" for a broken connection
    pub fn loop_err(e: &ConnectionError) -> String {
        match e {
            ConnectionError::MqttState(StateError::ConnectionAborted) => "lost".into(),
            ConnectionError::MqttState(StateError::Io(_)) | ConnectionError::Io(_) => "lost".into(),
            ConnectionError::MqttState(StateError::Deserialization(_)) => "lost".into(),
            ConnectionError::MqttState(se) => err_name(se),
            other => format!("other:{other:?}"),
        }
    }

    fn finish(state: &mut MqttState, r: Result<Option<Packet>, StateError>) -> CallResult {
        let ev = state.events.drain(..).map(|e| event(&e)).collect();
        match r {
            Ok(p) => CallResult { wr: p.iter().map(unpacket).collect(), ev, err: "none".into() },
            Err(e) => CallResult { wr: vec![], ev, err: err_name(&e) },
        }
    }

    impl Sm for MqttState {
        fn out(&mut self, p: &Pk) -> CallResult {
            let r = self.handle_outgoing_packet(request(p));
            finish(self, r)
        }
        fn inp(&mut self, p: &Pk) -> CallResult {
            let r = self.handle_incoming_packet(packet(p));
            finish(self, r)
        }
        fn clean(&mut self) -> Vec<Pk> {
            MqttState::clean(self).iter().map(unrequest).collect()
        }
        fn pending_snapshot(&self) -> Vec<Pk> {
            let mut c = self.clone();
            MqttState::clean(&mut c).iter().map(unrequest).collect()
        }
        fn vis(&self) -> Value {
            json!({"inflight": self.inflight(), "collision": self.collision.as_ref().map(|p| pk("publish", p.pkid, p.qos as u8, msg_of(&p.payload))).unwrap_or_else(nopk),
                   "awaitPing": self.await_pingresp, "collPing": self.collision_ping_count})
        }
    }
}

pub mod v5 {
    use super::*;
    use rumqttc::v5::mqttbytes::v5::*;
    use rumqttc::v5::mqttbytes::QoS;
    use rumqttc::v5::*;
    use rumqttc::Outgoing;

    pub fn qos(q: u8) -> QoS {
        match q {
            0 => QoS::AtMostOnce,
            1 => QoS::AtLeastOnce,
            _ => QoS::ExactlyOnce,
        }
    }

    pub fn publish(p: &Pk) -> Publish {
        let mut publish = Publish::new("t", qos(p.q), p.m.to_string().into_bytes(), None);
        publish.pkid = p.id;
        publish
    }

    pub fn request(p: &Pk) -> Request {
        match p.t.as_str() {
            "publish" => Request::Publish(publish(p)),
            "pubrel" => Request::PubRel(PubRel::new(p.id, None)),
            "subscribe" => Request::Subscribe(Subscribe::new(Filter::new("a", QoS::AtMostOnce), None)),
            "unsubscribe" => Request::Unsubscribe(Unsubscribe::new("a", None)),
            "pingreq" => Request::PingReq,
            "disconnect" => Request::Disconnect,
            "puback" => Request::PubAck(PubAck::new(p.id, None)),
            "pubrec" => Request::PubRec(PubRec::new(p.id, None)),
            other => panic!("harness: no request {other}"),
        }
    }

    pub fn packet(p: &Pk) -> Packet {
        // q = 1 on an acknowledgement: a failure reason code
        match p.t.as_str() {
            "publish" => Packet::Publish(publish(p)),
            "puback" => { let mut a = PubAck::new(p.id, None); if p.q == 1 { a.reason = PubAckReason::QuotaExceeded; } Packet::PubAck(a) }
            "pubrec" => { let mut a = PubRec::new(p.id, None); if p.q == 1 { a.reason = PubRecReason::QuotaExceeded; } Packet::PubRec(a) }
            "pubrel" => { let mut a = PubRel::new(p.id, None); if p.q == 1 { a.reason = PubRelReason::PacketIdentifierNotFound; } Packet::PubRel(a) }
            "pubcomp" => { let mut a = PubComp::new(p.id, None); if p.q == 1 { a.reason = PubCompReason::PacketIdentifierNotFound; } Packet::PubComp(a) }
            "suback" => Packet::SubAck(SubAck { pkid: p.id, return_codes: vec![SubscribeReasonCode::Success(QoS::AtMostOnce)], properties: None }),
            "unsuback" => Packet::UnsubAck(UnsubAck { pkid: p.id, reasons: vec![UnsubAckReason::Success], properties: None }),
            "pingresp" => Packet::PingResp(PingResp),
            "pingreq" => Packet::PingReq(PingReq),
            "connack" => {
                // q carries receive_max (0 = absent)
                let mut props = None;
                if p.q != 0 {
                    props = Some(ConnAckProperties {
                        session_expiry_interval: None,
                        receive_max: Some(p.q as u16),
                        max_qos: None,
                        retain_available: None,
                        max_packet_size: None,
                        assigned_client_identifier: None,
                        topic_alias_max: None,
                        reason_string: None,
                        user_properties: vec![],
                        wildcard_subscription_available: None,
                        subscription_identifiers_available: None,
                        shared_subscription_available: None,
                        server_keep_alive: None,
                        response_information: None,
                        server_reference: None,
                        authentication_method: None,
                        authentication_data: None,
                    });
                }
                Packet::ConnAck(ConnAck { session_present: false, code: ConnectReturnCode::Success, properties: props })
            }
            "disconnect" => Packet::Disconnect(Disconnect::new(DisconnectReasonCode::NormalDisconnection)),
            other => panic!("harness: no packet {other}"),
        }
    }

    pub fn unpacket(p: &Packet) -> Pk {
        match p {
            Packet::Publish(x) => pk("publish", x.pkid, x.qos as u8, msg_of(&x.payload)),
            Packet::PubAck(x) => pk("puback", x.pkid, 0, 0),
            Packet::PubRec(x) => pk("pubrec", x.pkid, 0, 0),
            Packet::PubRel(x) => pk("pubrel", x.pkid, 0, 0),
            Packet::PubComp(x) => pk("pubcomp", x.pkid, 0, 0),
            Packet::Subscribe(x) => pk("subscribe", x.pkid, 0, 0),
            Packet::Unsubscribe(x) => pk("unsubscribe", x.pkid, 0, 0),
            Packet::SubAck(x) => pk("suback", x.pkid, 0, 0),
            Packet::UnsubAck(x) => pk("unsuback", x.pkid, 0, 0),
            Packet::PingReq(_) => pk("pingreq", 0, 0, 0),
            Packet::PingResp(_) => pk("pingresp", 0, 0, 0),
            Packet::Disconnect(_) => pk("disconnect", 0, 0, 0),
            Packet::ConnAck(c) => pk("connack", 0, c.properties.as_ref().and_then(|p| p.receive_max).unwrap_or(0) as u8, 0),
            Packet::Connect(..) => pk("connect", 0, 0, 0),
            Packet::Auth(_) => pk("auth", 0, 0, 0),
        }
    }

    pub fn unrequest(r: &Request) -> Pk {
        match r {
            Request::Publish(x) => pk("publish", x.pkid, x.qos as u8, msg_of(&x.payload)),
            Request::PubRel(x) => pk("pubrel", x.pkid, 0, 0),
            Request::PubAck(x) => pk("puback", x.pkid, 0, 0),
            Request::PubRec(x) => pk("pubrec", x.pkid, 0, 0),
            Request::Subscribe(x) => pk("subscribe", x.pkid, 0, 0),
            Request::Unsubscribe(x) => pk("unsubscribe", x.pkid, 0, 0),
            Request::PingReq => pk("pingreq", 0, 0, 0),
            Request::Disconnect => pk("disconnect", 0, 0, 0),
            _ => pk("other", 0, 0, 0),
        }
    }

    pub fn event(e: &Event) -> Ev {
        match e {
            Event::Incoming(p) => {
                let x = unpacket(p);
                Ev { k: "in".into(), t: x.t, id: x.id }
            }
            Event::Outgoing(o) => {
                let (t, id) = match o {
                    Outgoing::Publish(i) => ("publish", *i),
                    Outgoing::Subscribe(i) => ("subscribe", *i),
                    Outgoing::Unsubscribe(i) => ("unsubscribe", *i),
                    Outgoing::PubAck(i) => ("puback", *i),
                    Outgoing::PubRec(i) => ("pubrec", *i),
                    Outgoing::PubRel(i) => ("pubrel", *i),
                    Outgoing::PubComp(i) => ("pubcomp", *i),
                    Outgoing::PingReq => ("pingreq", 0),
                    Outgoing::PingResp => ("pingresp", 0),
                    Outgoing::Disconnect => ("disconnect", 0),
                    Outgoing::AwaitAck(i) => ("awaitack", *i),
                };
                Ev { k: "out".into(), t: t.into(), id }
            }
        }
    }

    pub fn err_name(e: &StateError) -> String {
        match e {
            StateError::Unsolicited(_) => "Unsolicited".to_string(),
            StateError::AwaitPingResp => "AwaitPingResp".to_string(),
            StateError::WrongPacket => "WrongPacket".to_string(),
            StateError::CollisionTimeout => "CollisionTimeout".to_string(),
            StateError::EmptySubscription => "EmptySubscription".to_string(),
            StateError::ConnectionAborted => "ConnectionAborted".to_string(),
            StateError::ServerDisconnect { .. } => "ServerDisconnect".to_string(),
            StateError::InvalidAlias { .. } => "InvalidAlias".to_string(),
            other => format!("{other:?}").split(|c: char| !c.is_alphanumeric()).next().unwrap_or("Other").to_string(),
        }
    }

    pub fn loop_err(e: &ConnectionError) -> String {
        match e {
            ConnectionError::MqttState(StateError::ConnectionAborted) => "lost".into(),
            ConnectionError::MqttState(StateError::Io(_)) | ConnectionError::Io(_) => "lost".into(),
            ConnectionError::MqttState(StateError::Deserialization(_)) => "lost".into(),
            ConnectionError::MqttState(se) => err_name(se),
            other => format!("other:{other:?}"),
        }
    }

    fn finish(state: &mut MqttState, r: Result<Option<Packet>, StateError>) -> CallResult {
        let ev = state.events.drain(..).map(|e| event(&e)).collect();
        match r {
            Ok(p) => CallResult { wr: p.iter().map(unpacket).collect(), ev, err: "none".into() },
            Err(e) => CallResult { wr: vec![], ev, err: err_name(&e) },
        }
    }

    impl Sm for MqttState {
        fn out(&mut self, p: &Pk) -> CallResult {
            let r = self.handle_outgoing_packet(request(p));
            finish(self, r)
        }
        fn inp(&mut self, p: &Pk) -> CallResult {
            let r = self.handle_incoming_packet(packet(p));
            finish(self, r)
        }
        fn clean(&mut self) -> Vec<Pk> {
            MqttState::clean(self).iter().map(unrequest).collect()
        }
        fn pending_snapshot(&self) -> Vec<Pk> {
            let mut c = self.clone();
            MqttState::clean(&mut c).iter().map(unrequest).collect()
        }
        fn vis(&self) -> Value {
            json!({"inflight": self.inflight(), "collision": self.collision.as_ref().map(|p| pk("publish", p.pkid, p.qos as u8, msg_of(&p.payload))).unwrap_or_else(nopk),
                   "awaitPing": self.await_pingresp, "collPing": self.collision_ping_count})
        }
    }
}
