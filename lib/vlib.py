"""Common machinery for the /verif checks: harness build, TLC runs, evidence, verdict lines."""
import fcntl, hashlib, json, os, re, shutil, subprocess, sys, time

VERIF = os.path.dirname(os.path.dirname(os.path.abspath(__file__)))
SPEC = os.path.join(VERIF, "spec")
HARNESS = os.path.join(VERIF, "harness")
WORK = os.path.join(VERIF, "work")
EVID = os.path.join(VERIF, "evidence")
REPLAYS = os.path.join(VERIF, "replays")
REPO = "/repo"

OFFLINE_ENV = {"CARGO_NET_OFFLINE": "true", "GOPROXY": "off", "PIP_NO_INDEX": "1"}


class ToolError(Exception):
    pass


def log(*a):
    print("[verif]", *a, file=sys.stderr, flush=True)


class Ctx:
    def __init__(self, pid, tier, seed):
        self.pid, self.tier, self.seed = pid, tier, seed
        self.t0 = time.time()
        self.violations = []      # dicts {what, replay}
        self.known = []           # strings printed as KNOWN-FINDING
        self.drift = []
        self.work = os.path.join(WORK, "%s-%d" % (pid, os.getpid()))
        os.makedirs(self.work, exist_ok=True)
        os.makedirs(EVID, exist_ok=True)
        os.makedirs(REPLAYS, exist_ok=True)
        self.quick = tier == "quick"

    def path(self, name):
        return os.path.join(self.work, name)

    def violation(self, what, replay_obj):
        """Record a violation; the replay object is saved under /verif/replays."""
        blob = json.dumps(replay_obj, sort_keys=True, indent=1)
        h = hashlib.sha1(blob.encode()).hexdigest()[:10]
        path = os.path.join(REPLAYS, "%s-%s.json" % (self.pid, h))
        with open(path, "w") as f:
            f.write(blob)
        self.violations.append({"what": what, "replay": path})
        print("VIOLATION property=%s replay=%s" % (self.pid, path), flush=True)
        log("violation:", what)

    def known_finding(self, text):
        self.known.append(text)
        print("KNOWN-FINDING: property=%s %s" % (self.pid, text), flush=True)

    def cleanup(self):
        shutil.rmtree(self.work, ignore_errors=True)


def known_findings(pid):
    p = os.path.join(VERIF, "known_findings.json")
    if not os.path.exists(p):
        return []
    with open(p) as f:
        d = json.load(f)
    return [e for e in d.get("findings", []) if e.get("property") == pid]


# ------------------------------------------------------------------ cargo

def build_harness(bins, small=False, release=False):
    """Builds harness binaries against /repo's current working tree. Returns dir with binaries."""
    os.makedirs(WORK, exist_ok=True)
    target = "target-small" if small else "target"
    flags = ["--cfg", "rumqtt_verif", "--check-cfg", "cfg(rumqtt_verif)", "--check-cfg", "cfg(rumqtt_verif_small)"]
    if small:
        flags += ["--cfg", "rumqtt_verif_small"]
    env = dict(os.environ)
    env.update(OFFLINE_ENV)
    env["CARGO_ENCODED_RUSTFLAGS"] = "\x1f".join(flags)
    env.pop("RUSTFLAGS", None)
    # the lock file follows the repository's
    src_lock, dst_lock = os.path.join(REPO, "Cargo.lock"), os.path.join(HARNESS, "Cargo.lock")
    cmd = ["cargo", "build", "--offline", "--target-dir", os.path.join(HARNESS, target)]
    if release:
        cmd.append("--release")
    for b in bins:
        cmd += ["--bin", b]
    lockf = open(os.path.join(WORK, "cargo-%s.lock" % target), "w")
    fcntl.flock(lockf, fcntl.LOCK_EX)
    try:
        if not os.path.exists(dst_lock):
            shutil.copy(src_lock, dst_lock)
        t = time.time()
        r = subprocess.run(cmd, cwd=HARNESS, env=env, stdout=subprocess.PIPE, stderr=subprocess.STDOUT, text=True)
        if r.returncode != 0:
            sys.stderr.write(r.stdout[-6000:])
            raise ToolError("harness build failed (the repository tree does not compile with hooks on?)")
        log("harness build %s %s: %.1fs" % (target, ",".join(bins), time.time() - t))
    finally:
        fcntl.flock(lockf, fcntl.LOCK_UN)
        lockf.close()
    return os.path.join(HARNESS, target, "release" if release else "debug")


def run_bin(path, args, timeout=600, env=None, stdin=None):
    e = dict(os.environ)
    if env:
        e.update(env)
    r = subprocess.run([path] + [str(a) for a in args], stdout=subprocess.PIPE, stderr=subprocess.PIPE, text=True,
                       timeout=timeout, env=e, input=stdin)
    if r.returncode != 0:
        sys.stderr.write(r.stderr[-4000:])
        raise ToolError("%s exited %d" % (os.path.basename(path), r.returncode))
    return r.stdout


def last_json(out):
    for line in reversed(out.strip().splitlines()):
        line = line.strip()
        if line.startswith("{"):
            return json.loads(line)
    raise ToolError("no JSON summary in harness output")


# ------------------------------------------------------------------ TLC

class TlcResult:
    def __init__(self, out, rc):
        self.out, self.rc = out, rc
        m = re.search(r"(\d+) states generated, (\d+) distinct states found", out)
        self.generated = int(m.group(1)) if m else 0
        self.distinct = int(m.group(2)) if m else 0
        m = re.search(r"depth of the complete state graph search is (\d+)", out)
        self.depth = int(m.group(1)) if m else 0
        self.ok = "Model checking completed. No error has been found." in out
        self.invariant_violated = re.findall(r"Invariant (\S+) is violated", out)
        self.property_violated = ("Temporal properties were violated" in out or bool(re.search(r"Temporal property \S+ was violated", out))
                                  or bool(re.search(r"Action property \S+ is violated", out)))
        self.error = None
        self.partial = False          # stopped by the time budget before the state space was exhausted
        if not self.ok and not self.invariant_violated and not self.property_violated:
            m = re.search(r"Error: (.*)", out)
            self.error = m.group(1) if m else "TLC failed (rc=%d)" % rc
        self.coverage = {}
        for m in re.finditer(r"<(\w+) line \d+, col \d+ to line \d+, col \d+ of module (\w+)>: (\d+):(\d+)", out):
            self.coverage[m.group(1)] = (int(m.group(3)), int(m.group(4)))

    def printed(self, tag):
        """Lines printed by PrintT(<<tag, x>>): returns list of the x strings."""
        res = []
        pat = re.compile(r'^<<"%s", (.*)>>$' % re.escape(tag))
        for line in self.out.splitlines():
            m = pat.match(line.strip())
            if m:
                res.append(m.group(1))
        return res


def run_tlc_raw(ctx, module, cfg=None, workers=8, timeout=1200, env=None, simulate=None, depth=None, extra=(), heap="8g",
                dfs=False, name=None, coverage=False, allow_timeout=False):
    """Runs TLC on SPEC/<module>.tla with SPEC/<cfg>.cfg."""
    cfg = cfg or module
    name = name or os.path.basename(cfg).replace(".cfg", "")
    meta = ctx.path("tlc-" + name)
    e = dict(os.environ)
    jopts = "-Xss1g"
    if dfs:
        jopts += " -Dtlc2.tool.queue.IStateQueue=StateDeque"
    e["JAVA_TOOL_OPTIONS"] = jopts
    if env:
        e.update({k: str(v) for k, v in env.items()})
    cmd = ["timeout", str(timeout), "java", "-XX:+UseParallelGC", "-Xmx" + heap, "-cp",
           "/opt/veriftools/tla/tla2tools.jar:/opt/veriftools/tla/CommunityModules-deps.jar", "tlc2.TLC"]
    cmd += ["-workers", str(workers), "-metadir", meta, "-cleanup", "-noGenerateSpecTE", "-seed", str(ctx.seed)]
    if coverage:
        cmd += ["-coverage", "1"]
    if simulate is not None:
        cmd += ["-simulate", "num=%d" % simulate]
        if depth:
            cmd += ["-depth", str(depth)]
    cmd += list(extra)
    cfg_path = cfg if os.path.isabs(cfg) else os.path.join(SPEC, cfg + ".cfg")
    cmd += ["-config", cfg_path, os.path.join(SPEC, module + ".tla")]
    t = time.time()
    r = subprocess.run(cmd, cwd=SPEC, env=e, stdout=subprocess.PIPE, stderr=subprocess.STDOUT, text=True)
    shutil.rmtree(meta, ignore_errors=True)
    if r.returncode == 124 and not allow_timeout:
        raise ToolError("TLC timed out on %s after %ds" % (cfg, timeout))
    res = TlcResult(r.stdout, r.returncode)
    if r.returncode == 124:
        # stopped by the time budget: a simulation, or a model-checking run that is then reported as not exhaustive
        res.error = None
        res.partial = True
        m = re.findall(r"Progress\(\d+\) at [^:]*:\d+:\d+: ([\d,]+) states generated(?: \([^)]*\))?, ([\d,]+) distinct states found", r.stdout)
        if m and not res.generated:
            res.generated, res.distinct = int(m[-1][0].replace(",", "")), int(m[-1][1].replace(",", ""))
        m = re.findall(r"Progress\((\d+)\)", r.stdout)
        if m and not res.depth:
            res.depth = int(m[-1])
        if not res.invariant_violated and not res.property_violated:
            res.ok = True
    res.wall = time.time() - t
    log("tlc %s: %d generated / %d distinct, depth %d, %.1fs%s" % (
        name, res.generated, res.distinct, res.depth, res.wall, "" if res.ok else "  [NOT OK]"))
    return res


def run_tlc(ctx, module, cfg=None, **kw):
    res = run_tlc_raw(ctx, module, cfg, **kw)
    if res.error:
        sys.stderr.write(res.out[-5000:])
        raise ToolError("TLC error on %s: %s" % (cfg or module, res.error))
    return res


def printed_json(res, tag):
    """Values printed with PrintT(<<tag, ToJson(x)>>), decoded."""
    out = []
    for x in res.printed(tag):
        v = json.loads(x)
        out.append(json.loads(v) if isinstance(v, str) else v)
    return out


def validate_trace(ctx, module, trace_path, name=None, timeout=900, heap="4g"):
    """TLC trace validation (impl -> spec). Returns (accepted, first_unmatched_line, n_lines, TlcResult)."""
    n = sum(1 for _ in open(trace_path))
    res = run_tlc_raw(ctx, module, module, workers=1, timeout=timeout, env={"TRACE": trace_path}, dfs=True,
                      name=name or module, heap=heap)
    if "TRACE-REJECTED" in res.out or "Postcondition" in res.out:
        m = re.search(r'"TRACE-REJECTED at line",\s*(\d+)', res.out)
        line = int(m.group(1)) if m else -1
        log("trace %s rejected at line %d of %d" % (os.path.basename(trace_path), line, n))
        return False, line, n, res
    if not res.ok:
        sys.stderr.write(res.out[-4000:])
        raise ToolError("trace validation of %s failed to run: %s" % (trace_path, res.error))
    return True, None, n, res


def tlc_generate(ctx, module, cfg, tag, want, depth, workers=2, hard_timeout=240, name=None):
    """Runs TLC in simulation mode and collects values printed as PrintT(<<tag, ToJson(x)>>) until `want` of them
    were seen (or the time budget is used up), then stops TLC. Seeded by ctx.seed."""
    import threading
    name = name or os.path.basename(cfg).replace(".cfg", "")
    meta = ctx.path("tlc-" + name)
    e = dict(os.environ)
    e["JAVA_TOOL_OPTIONS"] = "-Xss1g"
    cmd = ["java", "-XX:+UseParallelGC", "-Xmx4g", "-cp",
           "/opt/veriftools/tla/tla2tools.jar:/opt/veriftools/tla/CommunityModules-deps.jar", "tlc2.TLC",
           "-workers", str(workers), "-metadir", meta, "-noGenerateSpecTE", "-seed", str(ctx.seed),
           "-simulate", "num=100000000", "-depth", str(depth), "-config", cfg, os.path.join(SPEC, module + ".tla")]
    t = time.time()
    proc = subprocess.Popen(cmd, cwd=SPEC, env=e, stdout=subprocess.PIPE, stderr=subprocess.STDOUT, text=True)
    timer = threading.Timer(hard_timeout, proc.kill)
    timer.start()
    vals, tail = [], []
    pat = re.compile(r'^<<"%s", (.*)>>$' % re.escape(tag))
    try:
        for line in proc.stdout:
            m = pat.match(line.strip())
            if m:
                v = json.loads(m.group(1))
                vals.append(json.loads(v) if isinstance(v, str) else v)
                if len(vals) >= want:
                    break
            else:
                tail.append(line)
                tail = tail[-60:]
    finally:
        timer.cancel()
        proc.kill()
        proc.wait()
        shutil.rmtree(meta, ignore_errors=True)
    log("tlc generate %s: %d %s values in %.1fs" % (name, len(vals), tag, time.time() - t))
    if not vals:
        sys.stderr.write("".join(tail))
        raise ToolError("TLC generated nothing from %s" % name)
    return vals


def tlc_counterexample(res):
    """Extracts the textual counterexample states from a TLC run."""
    out = res.out
    i = out.find("Error: Invariant")
    if i < 0:
        i = out.find("Error:")
    return out[i:i + 20000] if i >= 0 else ""


def make_cfg(ctx, base, subst, name=None):
    """Copies SPEC/<base>.cfg into the work dir with textual substitutions; returns its path."""
    with open(os.path.join(SPEC, base + ".cfg")) as f:
        text = f.read()
    for a, b in subst.items():
        if a not in text:
            raise ToolError("cfg %s has no %r" % (base, a))
        text = text.replace(a, b)
    p = ctx.path((name or base) + ".cfg")
    with open(p, "w") as f:
        f.write(text)
    return p


# ------------------------------------------------------------------ evidence

def write_evidence(ctx, level, coverage, assumptions):
    ev = {
        "property_id": ctx.pid,
        "tier": ctx.tier,
        "seed": ctx.seed,
        "level": level,
        "coverage": coverage,
        "assumptions": assumptions,
        "wall_s": round(time.time() - ctx.t0, 2),
        "violations": len(ctx.violations),
    }
    extra = getattr(ctx, "extra_coverage", None)
    if extra:
        ev["coverage"].update(extra)
    extra_a = getattr(ctx, "extra_assumptions", None)
    if extra_a:
        ev["assumptions"] = list(assumptions) + list(extra_a)
    if ctx.known:
        ev["coverage"]["known_findings_printed"] = ctx.known
    if ctx.violations:
        ev["coverage"]["violation_details"] = ctx.violations[:20]
    if ctx.drift:
        ev["coverage"]["drift"] = ctx.drift[:20]
    with open(os.path.join(EVID, ctx.pid + ".json"), "w") as f:
        json.dump(ev, f, indent=1, sort_keys=True)
        f.write("\n")


def finish(ctx):
    ctx.cleanup()
    return 1 if ctx.violations else 0
