#!/usr/bin/env python3
"""import_seeded.py <PID> <crate>: copies the deliverables of a mutation agent (/tmp/mut-<PID>-out/{A,B}) to /verif/seeded/<PID>-{A,B}"""
import json, os, shutil, sys
pid, crate = sys.argv[1], sys.argv[2]
for v in "AB":
    src = "/tmp/mut-%s-out/%s" % (pid, v)
    dst = "/verif/seeded/%s-%s" % (pid, v)
    if not os.path.exists(src + "/patch.diff"):
        print("missing", src); continue
    os.makedirs(dst, exist_ok=True)
    shutil.copy(src + "/patch.diff", dst + "/patch.diff")
    shutil.copy(src + "/demo.rs", dst + "/demo.rs")
    try:
        m = json.load(open(src + "/meta.json"))
    except Exception as e:
        m = {"summary": "meta.json unreadable: %s" % e, "needs": "", "ran": []}
    json.dump({"property": pid, "breaks": m.get("summary", ""), "needs": m.get("needs", ""),
               "author": "independent sub-agent given only the property text and a scratch worktree",
               "agent_ran": m.get("ran", []), "confirmed": "", "detected_by": ""}, open(dst + "/meta.json", "w"), indent=1)
    open(dst + "/place", "w").write("%s/tests/seeded_demo.rs\n" % crate)
    print("imported", dst)
