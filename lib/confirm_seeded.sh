#!/bin/bash
# Confirms seeded changes in a scratch worktree: with the patch the crate's tests pass and the demo fails; without it the demo passes.
# usage: confirm_seeded.sh <id>...   (ids = directories under /verif/seeded)
set -u
WT=/tmp/confirm-wt-$$
git -C /repo worktree add -q $WT HEAD || exit 2
export CARGO_TARGET_DIR=/tmp/confirm-target
for id in "$@"; do
  d=/verif/seeded/$id
  crate=rumqttc; [[ $id == C13* || $id == C01* || $id == C03* || $id == C06* || $id == C08* || $id == C09* || $id == C14* || $id == C15* || $id == C16* || $id == C17* || $id == C19* || $id == C20* ]] && crate=rumqttd
  [[ -f $d/crate ]] && crate=$(cat $d/crate)
  cd $WT && git checkout -q -- . && git clean -fdq
  # place the demo
  if [[ $crate == rumqttc ]]; then cp $d/demo.rs rumqttc/tests/seeded_demo.rs; demo="cargo test -p rumqttc --offline --test seeded_demo";
  else python3 - $d/demo.rs <<'PY'
import sys,re
demo=open(sys.argv[1]).read()
p='rumqttd/src/segments/mod.rs'
s=open(p).read()
i=s.rindex('}')
s=s[:i]+demo+'\n}\n'
open(p,'w').write(s)
PY
  demo="cargo test -p rumqttd --offline --lib c13_demo"; fi
  r0=$($demo 2>&1 | grep -E "^test result" | tr '\n' ' ')
  git apply $d/patch.diff || { echo "$id: patch does not apply" > $d/confirm.txt; continue; }
  r1=$($demo 2>&1 | grep -E "^test result" | tr '\n' ' ')
  if [[ $crate == rumqttc ]]; then suite=$(cargo test -p rumqttc --offline 2>&1 | grep -E "^test result" | tr '\n' ' '); else suite=$(cargo test -p rumqttd --offline --lib 2>&1 | grep -E "^test result" | tr '\n' ' '); fi
  { echo "demo on unchanged tree: $r0"; echo "demo with patch:        $r1"; echo "crate test suite with patch (includes the demo): $suite"; } > $d/confirm.txt
done
cd /; git -C /repo worktree remove --force $WT; rm -rf /tmp/confirm-target
