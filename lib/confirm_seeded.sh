#!/bin/bash
# Confirms seeded changes in a scratch worktree: with the patch the crate's tests pass and the demo fails; without it the demo passes.
# usage: confirm_seeded.sh <id>...   (ids = directories under /verif/seeded)
set -u
WT=/tmp/confirm-wt-$$
git -C /repo worktree add -q $WT HEAD || exit 2
export CARGO_TARGET_DIR=/tmp/confirm-target
for id in "$@"; do
  d=/verif/seeded/$id
  place=$(cat $d/place)
  cd $WT && git checkout -q -- . && git clean -fdq
  if [[ $place == segments ]]; then
    crate=rumqttd
    python3 - $d/demo.rs <<'PY'
import sys
demo=open(sys.argv[1]).read()
p='rumqttd/src/segments/mod.rs'
s=open(p).read()
i=s.rindex('}')
s=s[:i]+demo+'\n}\n'
open(p,'w').write(s)
PY
    demo="cargo test -p rumqttd --offline --lib segments::"
  else
    crate=${place%%/*}
    mkdir -p $(dirname $place)
    cp $d/demo.rs $place
    demo="cargo test -p $crate --offline --test seeded_demo"
  fi
  r0=$($demo 2>&1 | grep -E "^test result|^error" | tr '\n' ' ')
  git apply $d/patch.diff || { echo "$id: patch does not apply" > $d/confirm.txt; continue; }
  r1=$($demo 2>&1 | grep -E "^test result|^error" | tr '\n' ' ')
  if [[ $crate == rumqttc ]]; then suite=$(cargo test -p rumqttc --offline 2>&1 | grep -E "^test result" | tr '\n' ' '); else suite=$(cargo test -p rumqttd --offline --lib 2>&1 | grep -E "^test result" | tr '\n' ' '); fi
  { echo "demo on unchanged tree: $r0"; echo "demo with patch:        $r1"; echo "crate test suite with patch (includes the demo): $suite"; } > $d/confirm.txt
done
cd /; git -C /repo worktree remove --force $WT; rm -rf /tmp/confirm-target
