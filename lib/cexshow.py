#!/usr/bin/env python3
"""Compact view of a TLC counterexample of RouterSys: per state the action and selected fields."""
import re, sys
s = open(sys.argv[1]).read()
parts = re.split(r'\nState (\d+): ', s)
def grab(body, key, width=200):
    out = []
    for m in re.finditer(re.escape(key), body):
        out.append(re.sub(r'\s+', ' ', body[m.start():m.start() + width]))
    return out
keys = sys.argv[2:] or ['groups |->', 'shfwd |->', 'shstart |->', 'readyq |->']
for i in range(1, len(parts), 2):
    n = int(parts[i]); body = parts[i + 1]
    act = body.split('\n')[0]
    act = re.sub(r' line \d+.*', '', act)
    print('== %d %s' % (n, act))
    if '--all' in sys.argv or True:
        for k in keys:
            for g in grab(body, k)[:1]:
                print('     ', g[:200])
