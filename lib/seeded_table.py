#!/usr/bin/env python3
"""Prints the markdown table of seeded changes for DESIGN.md (A.6) from seeded/*/meta.json and replaces SEEDED_TABLE / the old table."""
import json, glob, os, re
rows = []
for d in sorted(glob.glob("/verif/seeded/*/")):
    m = json.load(open(d + "meta.json"))
    sid = os.path.basename(d.rstrip("/"))
    what = re.sub(r"\s+", " ", m.get("breaks", "")).strip()
    what = what[:230] + ("..." if len(what) > 230 else "")
    rows.append("| %s | %s | %s |" % (sid, what.replace("|", "/"), (m.get("detected_by") or "not run yet").replace("|", "/")))
table = "| change | what it breaks | caught by |\n|---|---|---|\n" + "\n".join(rows) + "\n"
p = "/verif/DESIGN.md"
s = open(p).read()
if "SEEDED_TABLE" in s:
    s = s.replace("SEEDED_TABLE\n", "<!-- seeded-table-begin -->\n" + table + "<!-- seeded-table-end -->\n")
else:
    s = re.sub(r"<!-- seeded-table-begin -->.*<!-- seeded-table-end -->\n", "<!-- seeded-table-begin -->\n" + table + "<!-- seeded-table-end -->\n", s, flags=re.S)
open(p, "w").write(s)
print(len(rows), "rows")
