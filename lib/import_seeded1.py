#!/usr/bin/env python3
"""import_seeded1.py <PID>: copies the deliverable of a mutation agent (/tmp/mut-<PID>-out/A) to /verif/seeded/<PID>-<next free letter>"""
import json, os, shutil, sys, string
pid = sys.argv[1]
src = "/tmp/mut-%s-out/A" % pid
if not os.path.exists(src + "/patch.diff"):
    sys.exit("missing " + src)
letter = next(l for l in string.ascii_uppercase if not os.path.exists("/verif/seeded/%s-%s" % (pid, l)))
dst = "/verif/seeded/%s-%s" % (pid, letter)
os.makedirs(dst)
shutil.copy(src + "/patch.diff", dst + "/patch.diff")
shutil.copy(src + "/demo.rs", dst + "/demo.rs")
try:
    m = json.load(open(src + "/meta.json"))
except Exception as e:
    m = {"summary": "meta.json unreadable: %s" % e, "needs": "", "ran": [], "crate": "rumqttd", "place": ""}
json.dump({"property": pid, "breaks": m.get("summary", ""), "needs": m.get("needs", ""),
           "author": "independent sub-agent (fourth round) given only the property text, a scratch worktree and a list of changes to avoid",
           "agent_ran": m.get("ran", []), "confirmed": "", "detected_by": ""}, open(dst + "/meta.json", "w"), indent=1)
place = m.get("place", "")
if "segments" in place and place.endswith(".rs") and "tests/" not in place:
    place = "segments"
elif not place.endswith("tests/seeded_demo.rs"):
    place = "%s/tests/seeded_demo.rs" % m.get("crate", "rumqttd")
open(dst + "/place", "w").write(place + "\n")
print(dst)
