#!/bin/bash
# usage: benign_run.sh : applies each behaviour-preserving change of /verif/benign to /repo, runs the quick checks that look at the
# touched code, restores the tree. Expected: every check exits 0 (DRIFT lines are allowed). Log: work/t/benign.log
cd /verif
declare -A CHECKS=(
 [d1]="C01 C06 C08 C09 C14 C15 C16 C17 C03" [d2]="C01 C06 C08 C09 C14 C15 C16 C17 C03" [d3]="C01 C08 C14 C16 C19 C03"
 [d4]="C01 C09 C17 C03" [d5]="C17 C01 C14" [d6]="C09 C01 C08 C06" [d7]="C04 C05 C20" [d8]="C19"
 [c1]="C02 C07 C10 C11" [c2]="C02 C07 C10 C11" [c3]="C02 C07 C10 C11 C18" [c4]="C10 C11 C18 C07"
 [c5]="C04 C05 C20" [c6]="C04 C05 C20" [c7]="C12" [c8]="C04 C05 C20")
for b in "$@"; do
  git -C /repo checkout -q -- . ; git -C /repo clean -fdq
  git -C /repo apply /verif/benign/$b/patch.diff || { echo "$b: patch does not apply" >> work/t/benign.log; continue; }
  for pid in ${CHECKS[$b]}; do
    s=$(date +%s)
    ./check $pid quick > work/t/b_${b}_$pid.log 2>&1
    rc=$?
    echo "$b $pid exit=$rc $(( $(date +%s) - s ))s viol=$(grep -c '^VIOLATION' work/t/b_${b}_$pid.log) drift=$(grep -c '^DRIFT' work/t/b_${b}_$pid.log) :: $(grep -m1 'violation:' work/t/b_${b}_$pid.log | cut -c1-240)" >> work/t/benign.log
  done
  git -C /repo checkout -q -- . ; git -C /repo clean -fdq
done
