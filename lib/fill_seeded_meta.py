#!/usr/bin/env python3
"""fill_seeded_meta.py <detect.log>...: writes detected_by / confirmed into seeded/<id>/meta.json from detect_seeded.sh log lines
(`<id> exit=1 ... viol=N drift=M :: [verif] violation: <text>`) and confirm.txt; prints what is still undetected."""
import json, os, re, sys
for log in sys.argv[1:]:
    for line in open(log):
        m = re.match(r"(\S+) exit=(\d+) \d+s viol=(\d+) drift=(\d+) :: (?:\[verif\] violation: )?(.*)", line.strip())
        if not m:
            continue
        sid, rc, viol, drift, text = m.group(1), int(m.group(2)), int(m.group(3)), int(m.group(4)), m.group(5)
        p = "/verif/seeded/%s/meta.json" % sid
        if not os.path.exists(p):
            continue
        meta = json.load(open(p))
        pid = sid.split("-")[0]
        if rc == 1 and viol > 0:
            keep = meta.get("detected_by", "")
            note = keep[keep.index(" Missed at first"):] if " Missed at first" in keep else ""
            meta["detected_by"] = "./check %s quick: VIOLATION (%s)%s" % (pid, text[:300], note)
        else:
            print("NOT DETECTED:", sid, "exit", rc, "viol", viol, "drift", drift)
            continue
        c = "/verif/seeded/%s/confirm.txt" % sid
        if os.path.exists(c):
            meta["confirmed"] = "patch applies to /repo HEAD, unchanged-tree check passes, check with the patch applied reports the violation in detected_by; demo/test-suite confirmation in confirm.txt"
        json.dump(meta, open(p, "w"), indent=1)
