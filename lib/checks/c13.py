"""C13: commit log. CommitLog.tla transcribes append/retention/readv; TLC checks, in every state of every append
sequence up to the bound and for every cursor the log has issued, that a read returns exactly the retained suffix
(ReadsOk), that continuations are exact, that fabricated cursors never panic (NoPanic) and that retention only drops
whole oldest segments.  Every state is then replayed into the real CommitLog (spec -> impl); random traces at
realistic sizes recorded from the real CommitLog are validated against CommitLogTrace.tla (impl -> spec)."""
import json, os
import vlib


def corrupt(src, dst):
    """negative control: break one logged field"""
    lines = open(src).read().splitlines()
    for i, l in enumerate(lines):
        e = json.loads(l)
        if e["ev"] == "read" and len(e["res"]["out"]) >= 2 and i > 50:
            e["res"]["out"][1][1] += 1
            lines[i] = json.dumps(e)
            open(dst, "w").write("\n".join(lines) + "\n")
            return i + 1
    return None


def run(ctx):
    bindir = vlib.build_harness(["commitlog"])
    exe = os.path.join(bindir, "commitlog")
    max_app = 6 if ctx.quick else 8
    cfg = vlib.make_cfg(ctx, "MC_CommitLog", {"MaxAppends = 6": "MaxAppends = %d" % max_app})
    res = vlib.run_tlc(ctx, "MC_CommitLog", cfg=cfg, workers=1, timeout=3000, heap="8g")
    if not res.ok:
        # the transcription of the code violates the property-level meaning: decide on the real code below
        vlib.log("CommitLog.tla: model violates %s" % res.invariant_violated)
    vectors = vlib.printed_json(res, "VEC")
    if len(vectors) != res.distinct and res.ok:
        raise vlib.ToolError("vector dump incomplete: %d of %d" % (len(vectors), res.distinct))
    vec_path, sus_path = ctx.path("vectors.ndjson"), ctx.path("suspects.ndjson")
    with open(vec_path, "w") as f:
        for v in vectors:
            f.write(json.dumps(v) + "\n")
    summary = vlib.last_json(vlib.run_bin(exe, ["replay", vec_path, sus_path], timeout=3000))
    traces_validated = 0
    # stage 2: states on which the real log differs from the model are decided by the property-level trace spec
    direct = [v for v in summary["violations"] if v.get("decide") == "panic"]
    for v in direct[:5]:
        ctx.violation("CommitLog panicked: %s" % json.dumps(v["got"]), v)
    if summary["suspects"]:
        ok, line, n, _ = vlib.validate_trace(ctx, "CommitLogTrace", sus_path, name="suspects")
        traces_validated += 1
        if not ok:
            ev = open(sus_path).read().splitlines()
            ctx.violation("real CommitLog history rejected by CommitLogTrace.tla at event %d: %s" % (line, ev[line - 1][:300] if 0 < line <= len(ev) else "?"),
                          {"trace": [json.loads(x) for x in ev[:line]], "first_mismatch_with_model": summary["violations"][:3]})
        else:
            ctx.drift.append({"note": "real CommitLog differs from CommitLog.tla but satisfies the property-level trace spec",
                              "examples": summary["violations"][:3]})
            print("DRIFT property=C13 implementation differs from CommitLog.tla on %d states (property-level oracle accepts)" % summary["suspects"])
    # impl -> spec: random traces at realistic sizes
    n_steps = 120 if ctx.quick else 600
    rounds = 2 if ctx.quick else 8
    events = 0
    for k in range(rounds):
        tp = ctx.path("trace%d.ndjson" % k)
        tsum = vlib.last_json(vlib.run_bin(exe, ["trace", ctx.seed * 100 + k, n_steps, tp]))
        events += tsum["events"]
        text = open(tp).read()
        if '"ev":"panic"' in text:
            lines = text.splitlines()
            i = next(i for i, l in enumerate(lines) if '"ev":"panic"' in l)
            ctx.violation("CommitLog panicked in a random trace: %s" % lines[i], {"trace": [json.loads(x) for x in lines[max(0, i - 60):i + 1]]})
            continue
        ok, line, n, _ = vlib.validate_trace(ctx, "CommitLogTrace", tp, name="trace%d" % k)
        traces_validated += tsum["traces"]
        if not ok:
            lines = text.splitlines()
            start = max(j for j in range(line) if '"ev":"new"' in lines[j])
            ctx.violation("recorded CommitLog trace rejected by CommitLogTrace.tla at event %d: %s" % (line, lines[line - 1][:300]),
                          {"trace": [json.loads(x) for x in lines[start:line]]})
        elif k == 0:
            bad = ctx.path("bad.ndjson")
            if corrupt(tp, bad):
                ok2, _, _, _ = vlib.validate_trace(ctx, "CommitLogTrace", bad, name="negctl")
                if ok2:
                    raise vlib.ToolError("negative control failed: a corrupted trace was accepted by CommitLogTrace.tla")
    vlib.write_evidence(ctx, "model_checking", {
        "states": res.distinct,
        "transitions": res.generated,
        "traces_validated_against_impl": len(vectors) + traces_validated,
        "samples": summary["samples"][:3],
        "model_invariants": ["Structure", "IssuedWellFormed", "ReadsOk", "NoPanic", "OnlyOldestWhole"],
        "model_ok": res.ok,
        "constants": {"Cap": 4, "Sizes": [1, 2, 5], "Lims": [1, 2, 3], "MaxAppends": max_app, "Lens": [0, 1, 2, 3, 7]},
        "exhaustive": True,
        "spec_to_impl": {"states_replayed": summary["states"], "reads_compared": summary["evaluations"],
                         "stale_cursor_reads": summary["stale_reads"], "multi_segment_reads": summary["multi_segment_reads"],
                         "distinct_nontrivial_reads": summary["distinct_nontrivial"], "mismatching_states": summary["suspects"]},
        "impl_to_spec": {"random_trace_events": events, "traces": traces_validated, "negative_control": "corrupted trace rejected"},
    }, ["CommitLog.tla/TLC exhaustive only up to MaxAppends appends of three entry sizes and limits 1..3; beyond that sampled traces",
        "segment roll policy is modelled as in the code for the replay and left open in the trace specification",
        "entries are identified by their append counter; payload bytes are not modelled"])


def replay(ctx, path):
    v = json.load(open(path))
    tp = ctx.path("replay.ndjson")
    with open(tp, "w") as f:
        for e in v.get("trace", []):
            f.write(json.dumps(e) + "\n")
    ok, line, n, _ = vlib.validate_trace(ctx, "CommitLogTrace", tp)
    print("recorded history %s by CommitLogTrace.tla%s" % ("accepted" if ok else "REJECTED", "" if ok else " at event %d" % line))
    run(ctx)
