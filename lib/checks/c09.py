"""C09: broker outbound QoS>0 window bounded, uniquely numbered, resumes on ack; unsolicited ack closes only that connection."""
from checks import router_common as rc

INV = ["NoPanic", "WindowBound", "UniqueInflightIds", "InflightIdsValid", "QuiescentComplete", "DeliveredExactly", "ReadyqSound"]
ACT = ["AckClosesOnlyThat"]


def run(ctx):
    q = ctx.quick
    mc = [("c09_a", dict(MaxPub=4, MaxSubOps=1, SubQoS="{1}", PubQoS="{0}", EnUnsub="FALSE"), None),
          ("c09_b", dict(MaxPub=2, MaxSubOps=2, SubQoS="{1, 2}", PubQoS="{0}", EnUnsub="FALSE", Adversaries='{"n1"}'), None)]
    if not q:
        mc.append(("c09_c", dict(MaxPub=5, MaxSubOps=2, SubQoS="{1, 2}", PubQoS="{0, 1}", EnUnsub="FALSE"), None))
    gen = [("c09_g", dict(Nets='{"n1", "n2", "n3"}', SubQoS="{1, 2}", PubQoS="{0, 1}", PubRetain="{TRUE, FALSE}", Subscribers='{"n1", "n3"}', Adversaries='{"n3"}',
                          MaxPub=12, MaxSubOps=4, MaxCloses=1, EnUnsub="FALSE"),
            dict(Topics="MCTopics3", Filters="MCFilters3", MatchRel="MCMatch3"), 600 if q else 6000, 50)]
    rc.run_router_property(ctx, "C09", mc, gen, INV, act=ACT, trace_act=["AckClosesOnlyThatT"])


def replay(ctx, path):
    import json
    print(json.dumps(json.load(open(path)), indent=1)[:4000])
