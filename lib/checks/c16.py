"""C16: last will published exactly when a connection ends without DISCONNECT. Routing core: see router_common.py, ghosts in
RouterSys.tla. The connection path around it (server/broker.rs remote(): which ends of a link lead to Event::PublishWill,
link/remote.rs: how DISCONNECT ends the link) is covered by the decision table Will.tla, enumerated by TLC and executed row
by row through the real remote() with a real router thread."""
import json, os
import vlib
from checks import router_common as rc

INV = ["NoPanic", "WillAtMostOnce", "WillNeverAfterDisconnect", "WillPublishedWhenDue", "DeliveredExactly", "NoSpurious", "QuiescentComplete", "RetainedRules"]


def will_table(ctx):
    bindir = vlib.build_harness(["wills"])
    rows_path, res_path = ctx.path("will_rows.ndjson"), ctx.path("will_res.ndjson")
    res = vlib.run_tlc(ctx, "MC_Will", cfg="MC_Will", workers=1, env={"OUT": rows_path}, timeout=600)
    if not res.ok:
        raise vlib.ToolError("Will.tla: the table does not imply the demanded property")
    rows = open(rows_path).read().splitlines()
    if ctx.quick:      # the keep-alive rows take 2.5 s of real time each (run concurrently); quick keeps a third of them
        rows = [r for i, r in enumerate(rows) if '"end":"keepalive"' not in r or i % 3 == ctx.seed % 3]
        open(rows_path, "w").write("\n".join(rows) + "\n")
    summ = vlib.last_json(vlib.run_bin(os.path.join(bindir, "wills"), [rows_path, res_path], timeout=1800))
    for r in summ["first_failed"][:6]:
        ctx.violation("last will through remote(): %s: %s" % (json.dumps(r.get("row")), "; ".join(r.get("problems", []))[:400]), r)
    ctx.extra_coverage = {"will_table_rows_executed": summ["rows"], "will_table_rows_failed": summ["failed"],
                          "will_table": "Will.tla rows (will none/plain/retained x will QoS x end drop/protocol error/DISCONNECT/keep-alive x earlier connection with a fired will x "
                                        "protocol version) through the real remote() and a real router thread; observed: what a standing subscriber sees, what a late subscriber gets as retained"}
    ctx.extra_assumptions = ["the will-table rows run in real time on a multi-thread runtime with waits of 0.5-0.7 s for a will to arrive (will delay 0) and 2.3 s of silence for the keep-alive rows (keep-alive 1 s)"]


def run(ctx):
    q = ctx.quick
    will_table(ctx)
    own = dict(NetCid="MCNetCidOwn", NetWill="MCWill1", Topics="MCTopics1", Filters="MCFilters1")
    mc = [("c16_a", dict(Nets='{"n1", "n2", "n3"}', CIDs='{"c1", "c2", "c3"}', MaxConn=3, MaxPub=0, MaxSubOps=1, MaxCloses=2, SubQoS="{1}", Subscribers='{"n2"}',
                         Publishers="{}", EnUnsub="FALSE", EnDisconnect="TRUE"), own)]
    if not q:
        mc.append(("c16_b", dict(Nets='{"n1", "n2", "n3"}', CIDs='{"c1", "c2", "c3"}', MaxConn=3, MaxPub=1, MaxSubOps=2, MaxCloses=3, SubQoS="{0, 2}",
                                 Subscribers='{"n2", "n3"}', Publishers='{"n1"}', EnDisconnect="TRUE"), own))
    gen = [("c16_g", dict(Nets='{"n1", "n2", "n3"}', CIDs='{"c1", "c2", "c3"}', MaxConn=3, SubQoS="{0, 1, 2}", PubQoS="{0, 1}", Subscribers='{"n2", "n3", "n1"}',
                          Publishers='{"n2"}', MaxPub=4, MaxSubOps=4, MaxCloses=4, EnDisconnect="TRUE", EnPing="TRUE"),
            dict(NetCid="MCNetCidOwn", NetWill="MCWill1", Topics="MCTopics3", Filters="MCFilters3", MatchRel="MCMatch3"), 500 if q else 7000, 38)]
    rc.run_router_property(ctx, "C16", mc, gen, INV, big=False)


def replay(ctx, path):
    import json
    print(json.dumps(json.load(open(path)), indent=1)[:4000])
