"""C16: last will published exactly when a connection ends without DISCONNECT. See router_common.py; ghosts in RouterSys.tla."""
from checks import router_common as rc

INV = ["NoPanic", "WillAtMostOnce", "WillNeverAfterDisconnect", "WillPublishedWhenDue", "DeliveredExactly", "NoSpurious", "QuiescentComplete", "RetainedRules"]


def run(ctx):
    q = ctx.quick
    own = dict(NetCid="MCNetCidOwn", NetWill="MCWill1", Topics="MCTopics1", Filters="MCFilters1")
    mc = [("c16_a", dict(Nets='{"n1", "n2", "n3"}', CIDs='{"c1", "c2", "c3"}', MaxConn=3, MaxPub=0, MaxSubOps=1, MaxCloses=2, SubQoS="{1}", Subscribers='{"n2"}',
                         Publishers="{}", EnUnsub="FALSE", EnDisconnect="TRUE"), own)]
    if not q:
        mc.append(("c16_b", dict(Nets='{"n1", "n2", "n3"}', CIDs='{"c1", "c2", "c3"}', MaxConn=3, MaxPub=1, MaxSubOps=2, MaxCloses=3, SubQoS="{0, 2}",
                                 Subscribers='{"n2", "n3"}', Publishers='{"n1"}', EnDisconnect="TRUE"), own))
    gen = [("c16_g", dict(Nets='{"n1", "n2", "n3"}', CIDs='{"c1", "c2", "c3"}', MaxConn=3, SubQoS="{0, 1, 2}", PubQoS="{0, 1}", Subscribers='{"n2", "n3", "n1"}',
                          Publishers='{"n2"}', MaxPub=4, MaxSubOps=4, MaxCloses=4, EnDisconnect="TRUE", EnPing="TRUE"),
            dict(NetCid="MCNetCidOwn", NetWill="MCWill1", Topics="MCTopics3", Filters="MCFilters3", MatchRel="MCMatch3"), 500 if q else 7000, 38)]
    rc.run_router_property(ctx, "C16", mc, gen, INV, big=False)


def replay(ctx, path):
    import json
    print(json.dumps(json.load(open(path)), indent=1)[:4000])
