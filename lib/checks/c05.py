"""C05: decoders are total, bounded and chunking-independent. Framing.tla states what a decoder call may answer from the fixed
header alone; byte strings (exhaustive short strings over a header-grammar alphabet, every first byte x every remaining-length
shape, structural mutations of every valid Wire.tla frame, concatenated frames) are fed to the four decoders under every /
boundary chunkings; TLC checks every recorded decoder call against Framing!CallOk (FramingTrace.tla); the harness' outputs for
different chunkings of the same bytes must be identical."""
import itertools, json, os, random
import vlib
from checks import codec_common as cc

ALPHA = [0x00, 0x01, 0x02, 0x10, 0x20, 0x30, 0x7F, 0x80, 0xC0, 0xE0, 0xF0, 0xFF]
DECODERS = [(4, "client"), (4, "broker"), (5, "client"), (5, "broker")]


def chunkings(n, full):
    if n == 0:
        return [[]]
    if full:
        out = []
        for mask in range(1 << (n - 1)):
            cuts, last = [], 0
            for i in range(n - 1):
                if mask >> i & 1:
                    cuts.append(i + 1 - last); last = i + 1
            cuts.append(n - last)
            out.append(cuts)
        return out
    pts = sorted({1, 2, 3, n - 1} & set(range(1, n)))
    return [[n]] + [[p, n - p] for p in pts] + ([[1] * n] if n <= 64 else [])


def gen_inputs(ctx, frames4, frames5):
    rng = random.Random(ctx.seed)
    inputs = []

    def add(v, side, data, chunks, mx=0):
        inputs.append({"v": v, "side": side, "max": mx, "hex": data.hex(), "chunks": chunks})
    maxlen = 3 if ctx.quick else 4
    # (a) every string up to maxlen over the alphabet, every chunking, all four decoders
    for n in range(0, maxlen + 1):
        for tup in itertools.product(ALPHA, repeat=n):
            data = bytes(tup)
            for ch in chunkings(n, True):
                for v, side in DECODERS:
                    add(v, side, data, ch)
    # (b) every first byte x remaining-length shapes x short bodies
    shapes = [b"\x00", b"\x01\x00", b"\x02\x00", b"\x02\x00\x01", b"\x04\x00\x01\x61\x00", b"\x7f\x00", b"\x80", b"\x80\x01" + b"\x00" * 5, b"\xff\x7f\x00",
              b"\x80\x80\x01", b"\xff\xff\xff\x7f", b"\x80\x80\x80\x80", b"\x80\x80\x80\x80\x01", b"\xff\xff\xff\xff\x7f", b"\x03\x00\x01\x61", b"\x05\x00\x01\x61\x00\x05"]
    for first in range(256):
        for sh in shapes:
            data = bytes([first]) + sh
            for v, side in DECODERS:
                add(v, side, data, [len(data)])
                if len(data) > 2:
                    add(v, side, data, [1, 1, len(data) - 2])
                for mx in (2, 1000):
                    add(v, side, data, [len(data)], mx)
    # (c) structural mutations of valid frames
    for v, frames in ((4, frames4), (5, frames5)):
        pick = frames if not ctx.quick else rng.sample(frames, min(len(frames), 500))
        for fr in pick:
            n = len(fr)
            muts = [fr, fr[:-1], fr[: n // 2], fr + fr[:3]]
            muts += [bytes([(t << 4) | (fr[0] & 15)]) + fr[1:] for t in rng.sample(range(16), 3)]
            if fr[1] < 127:
                muts += [bytes([fr[0], fr[1] + 1]) + fr[2:], bytes([fr[0], max(fr[1] - 1, 0)]) + fr[2:]]
            if n > 6:
                k = rng.randrange(2, n)
                muts.append(fr[:k] + fr[k + 1:])                         # a byte dropped (keeps the declared length)
                muts.append(fr[:k] + bytes([fr[k] ^ 0xFF]) + fr[k + 1:])  # a byte flipped
            for mu in muts:
                for side in ("client", "broker"):
                    for ch in chunkings(len(mu), False)[:4]:
                        add(v, side, mu, ch)
                    add(v, side, mu, [len(mu)], max(n - 3, 1))            # frame larger than max
                    add(v, side, mu, [len(mu)], n)
        # (d) streams of concatenated valid frames under random chunkings
        for _ in range(20 if ctx.quick else 200):
            stream = b"".join(rng.sample(frames, min(5, len(frames))))
            for side in ("client", "broker"):
                add(v, side, stream, [len(stream)])
                for _ in range(3):
                    cuts, left = [], len(stream)
                    while left > 0:
                        c = min(left, rng.choice([1, 2, 3, 7, 50, 400])); cuts.append(c); left -= c
                    add(v, side, stream, cuts)
    return inputs


def run(ctx):
    bindir = vlib.build_harness(["codecs"])
    v4, v5, res = cc.wire_vectors(ctx)
    frames = {}
    for v, vecs in ((4, v4), (5, v5)):
        vp, rp = ctx.path("vec%d.ndjson" % v), ctx.path("res%d.ndjson" % v)
        small = [r for r in vecs if True]
        with open(vp, "w") as f:
            for r in small:
                f.write(json.dumps({"v": v, "p": r["p"]}) + "\n")
        vlib.run_bin(os.path.join(bindir, "codecs"), ["roundtrip", vp, rp], timeout=1800)
        fr = []
        for l in open(rp):
            r = json.loads(l)
            # the bytes the encoder wrote are an input for the decoders whether or not the round trip of this vector succeeded
            if 0 < r["len"] <= 300:
                fr.append(cc.expand(r["rle"]))
        frames[v] = sorted(set(fr))
    inputs = gen_inputs(ctx, frames[4], frames[5])
    ip, op = ctx.path("dec_in.ndjson"), ctx.path("dec_out.ndjson")
    with open(ip, "w") as f:
        for x in inputs:
            f.write(json.dumps(x) + "\n")
    summ = vlib.last_json(vlib.run_bin(os.path.join(bindir, "codecs"), ["decode", ip, op], timeout=3000))
    # records for FramingTrace + chunk-independence groups
    tp = ctx.path("framing.ndjson")
    groups = {}
    nrec = 0
    npanic = 0
    rec_src = []
    with open(tp, "w") as tf:
        for x, l in zip(inputs, open(op)):
            r = json.loads(l)
            data = bytes.fromhex(x["hex"])
            off = 0
            errored = False
            for c in r["calls"]:
                if c["outcome"] == "panic":
                    npanic += 1
                    if npanic <= 5:
                        ctx.violation("MQTT %d %s decoder panicked on %s (chunks %s): %s" % (x["v"], x["side"], x["hex"][:80], x["chunks"][:8], c.get("err", c.get("panic", ""))[:200]), {"input": x, "call": c})
                    errored = True
                    break
                hdr = list(data[off: off + min(5, c["buffered"])])
                tf.write(json.dumps({"hdr": hdr, "n": c["buffered"], "max": x["max"], "outcome": c["outcome"], "consumed": c["consumed"]}) + "\n")
                rec_src.append((x, c))
                nrec += 1
                off += c["consumed"]
                if c["outcome"] == "error":
                    errored = True
            key = (x["v"], x["side"], x["max"], x["hex"])
            sig = json.dumps([r["packets"], errored], sort_keys=True)
            groups.setdefault(key, {})[sig] = x["chunks"]
    bad_groups = [(k, g) for k, g in groups.items() if len(g) > 1]
    for k, g in bad_groups[:5]:
        ctx.violation("MQTT %d %s decoder yields different packet sequences for different chunkings of %s: %s" % (k[0], k[1], k[3][:80], list(g.values())[:3]),
                      {"v": k[0], "side": k[1], "max": k[2], "hex": k[3], "chunkings_and_outputs": {json.dumps(v): s for s, v in g.items()}})
    ok, line, n, r = vlib.validate_trace(ctx, "FramingTrace", tp, name="framing", timeout=3000, heap="8g")
    if not ok:
        x, c = rec_src[line - 1]
        ctx.violation("MQTT %d %s decoder call breaks Framing!CallOk: buffered %d bytes of %s (max %d): outcome %s, consumed %d%s"
                      % (x["v"], x["side"], c["buffered"], x["hex"][:60], x["max"], c["outcome"], c["consumed"], (", need %s" % c.get("need")) if c["outcome"] == "need" else ""),
                      {"input": x, "call": c})
    nontrivial = len({(k[0], k[1], k[3]) for k in groups})
    vlib.write_evidence(ctx, "exploration", {
        "evaluations": len(inputs), "distinct_nontrivial": nontrivial,
        "rule": "inputs = (decoder, byte string, chunking, max size): all strings up to length %d over %s with all chunkings; 256 first bytes x %d "
                "remaining-length shapes; structural mutations (truncate, retype, length +-1, drop/flip a byte, trailing bytes) of %d valid frames of "
                "Wire.tla with boundary chunkings and max sizes around the frame; streams of 5 concatenated frames under random chunkings; distinct by "
                "(decoder, byte string)" % (3 if ctx.quick else 4, [hex(a) for a in ALPHA], 16, len(frames[4]) + len(frames[5])),
        "samples": [inputs[len(inputs) // 3], inputs[-1]],
        "decoder_calls_checked_by_TLC": nrec, "panics": npanic, "chunking_groups": len(groups), "groups_with_differences": len(bad_groups),
        "exhaustive": False,
    }, ["Framing.tla decides NeedMore / Error / frame extent from the fixed header only; whether a complete frame is a packet or malformed is left to the decoders but must not depend on the chunking",
        "the broker decoders are called at Protocol::read_mut, the client decoders through the tokio_util Decoder of the public Codec (incoming limit = max, outgoing limit different in both directions) cross-checked with Packet::read, inside a buffering loop like Framed / Network::read"])


def replay(ctx, path):
    print(json.dumps(json.load(open(path)), indent=1)[:3000])
