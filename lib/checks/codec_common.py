"""Shared pieces of the codec checks (C04, C05, C20): Wire.tla vectors and the `codecs` harness."""
import json, os
import vlib


def conv(x):
    if isinstance(x, dict):
        if x == {"none": True}:
            return None
        return {k: conv(v) for k, v in x.items()}
    if isinstance(x, list):
        return [conv(v) for v in x]
    return x


def wire_vectors(ctx):
    """TLC evaluates the packet value spaces of Wire.tla; returns (vectors4, vectors5, TlcResult); a vector is the TLC record."""
    o4, o5 = ctx.path("w4.ndjson"), ctx.path("w5.ndjson")
    res = vlib.run_tlc(ctx, "MC_Wire", cfg="MC_Wire", workers=1, env={"OUT4": o4, "OUT5": o5}, timeout=900)
    if not res.ok:
        raise vlib.ToolError("Wire.tla: an ASSUME about the layout operators failed")
    out = []
    for path in (o4, o5):
        vs = []
        for l in open(path):
            r = json.loads(l)
            p = conv(r["p"])
            if isinstance(p.get("props"), list) and not p["props"]:
                p["props"] = None
            r["p"] = p
            vs.append(r)
        out.append(vs)
    return out[0], out[1], res


def canon_rle(runs):
    out = []
    for b, n in runs:
        if n == 0:
            continue
        if out and out[-1][0] == b:
            out[-1][1] += n
        else:
            out.append([b, n])
    return out


def expand(runs, limit=None):
    b = bytearray()
    for x, n in runs:
        b.extend(bytes([x]) * n)
        if limit and len(b) > limit:
            break
    return bytes(b)
