"""C03: no client behaviour can crash or halt the routing core. See router_common.py."""
from checks import router_common as rc

INV = ["NoPanic", "SlabsAligned", "ReadyqSound", "WindowBound"]


def run(ctx):
    q = ctx.quick
    mc = [("c03_a", dict(Nets='{"n1", "n2", "n3"}', MaxPub=1, MaxSubOps=2, MaxCloses=1, SubQoS="{1}", PubQoS="{1}", Subscribers='{"n1"}',
                         Adversaries='{"n1"}', EnStale="TRUE", EnUnsub="FALSE"), dict(Topics="MCTopics1", Filters="MCFilters1"))]
    if not q:
        mc.append(("c03_b", dict(Nets='{"n1", "n2", "n3"}', MaxPub=2, MaxSubOps=3, MaxCloses=2, SubQoS="{1, 2}", PubQoS="{0, 2}", Subscribers='{"n1", "n3"}',
                                 Adversaries='{"n1", "n2"}', EnStale="TRUE", EnDisconnect="TRUE"), dict(NetClean="MCPersistent1", Topics="MCTopics1", Filters="MCFilters1")))
    gen = [("c03_g", dict(Nets='{"n1", "n2", "n3", "n4"}', SubQoS="{0, 1, 2}", PubQoS="{0, 1, 2}", Subscribers='{"n1", "n3", "n4"}', Publishers='{"n2", "n4"}',
                          Adversaries='{"n1", "n2", "n3"}', MaxPub=6, MaxSubOps=10, MaxCloses=3, EnPing="TRUE", EnDisconnect="TRUE", EnStale="TRUE"),
            dict(NetClean="MCMixed1", Topics="MCTopics3", Filters="MCFilters3", MatchRel="MCMatch3"), 800 if q else 8000, 60)]
    import vlib
    # beyond the model: shared subscriptions, Unicode topics, Shadow, invalid ids ... on the real router (debug assertions on)
    bindir = vlib.build_harness(["router_run"])
    fz = rc.run_fuzz(ctx, bindir, rc.fuzz_scripts(ctx.seed, 150 if q else 2000), "prod")
    vlib.log("fuzz: %d scripts, %d steps, %d probes served" % fz)
    rc.run_router_property(ctx, "C03", mc, gen, INV, big=True)


def replay(ctx, path):
    import json
    print(json.dumps(json.load(open(path)), indent=1)[:4000])
