"""C03: no client behaviour can crash or halt the routing core. See router_common.py."""
from checks import router_common as rc

INV = ["NoPanic", "SlabsAligned", "ReadyqSound", "WindowBound"]


def run(ctx):
    q = ctx.quick
    mc = [("c03_a", dict(Nets='{"n1", "n2", "n3"}', MaxPub=1, MaxSubOps=2, MaxCloses=1, SubQoS="{1}", PubQoS="{1}", Subscribers='{"n1"}',
                         Adversaries='{"n1"}', EnStale="TRUE", EnUnsub="FALSE"), dict(Topics="MCTopics1", Filters="MCFilters1"))]
    if not q:
        mc.append(("c03_b", dict(Nets='{"n1", "n2", "n3"}', MaxPub=2, MaxSubOps=3, MaxCloses=2, SubQoS="{1, 2}", PubQoS="{0, 2}", Subscribers='{"n1", "n3"}',
                                 Adversaries='{"n1", "n2"}', EnStale="TRUE", EnDisconnect="TRUE"), dict(NetClean="MCPersistent1", Topics="MCTopics1", Filters="MCFilters1")))
    gen = [("c03_g", dict(Nets='{"n1", "n2", "n3", "n4"}', SubQoS="{0, 1, 2}", PubQoS="{0, 1, 2}", Subscribers='{"n1", "n3", "n4"}', Publishers='{"n2", "n4"}',
                          Adversaries='{"n1", "n2", "n3"}', MaxPub=6, MaxSubOps=10, MaxCloses=3, EnPing="TRUE", EnDisconnect="TRUE", EnStale="TRUE"),
            dict(NetClean="MCMixed1", Topics="MCTopics3", Filters="MCFilters3", MatchRel="MCMatch3"), 800 if q else 8000, 60)]
    import vlib
    linklock_stage(ctx)
    # beyond the model: shared subscriptions, Unicode topics, Shadow, invalid ids ... on the real router (debug assertions on)
    bindir = vlib.build_harness(["router_run"])
    fz = rc.run_fuzz(ctx, bindir, rc.fuzz_scripts(ctx.seed, 150 if q else 2000), "prod")
    vlib.log("fuzz: %d scripts, %d steps, %d probes served" % fz)
    rc.run_router_property(ctx, "C03", mc, gen, INV, big=True)


def linklock_stage(ctx):
    """LinkLock.tla: the lock / bounded-channel protocol between a local link's blocking push and the router thread is free of
    deadlock (TLC, deadlock checking on, plus EverythingHandled under fairness); the variant that keeps the buffer locked across
    the send must deadlock (negative control); the schedule of that deadlock is executed on the real code, which must complete
    as the model says."""
    import json, os
    import vlib
    base = "CONSTANTS\n  Links = {\"a\", \"b\"}\n  Cap = 2\n  MaxPush = %d\n  HoldAcrossSend = %s\n"
    cfg = ctx.path("MC_LinkLock.cfg")
    open(cfg, "w").write(base % (3 if ctx.quick else 5, "FALSE") + "SPECIFICATION FairSpec\nINVARIANTS MutualExclusion FreeWhileSending\nPROPERTIES EverythingHandled\n")
    res = vlib.run_tlc(ctx, "LinkLock", cfg=cfg, workers=2, timeout=900, name="linklock")
    if not res.ok:
        ctx.violation("LinkLock.tla (link push / router event protocol as the code has it) is not deadlock-free: %s" % (res.invariant_violated or "deadlock or liveness"),
                      {"tlc": vlib.tlc_counterexample(res)[:8000]})
    cfg2 = ctx.path("MC_LinkLockHold.cfg")
    open(cfg2, "w").write(base % (2, "TRUE") + "SPECIFICATION Spec\nINVARIANTS MutualExclusion\n")
    neg = vlib.run_tlc_raw(ctx, "LinkLock", cfg=cfg2, workers=2, timeout=600, name="linklock_hold")
    if "Deadlock reached" not in neg.out:
        raise vlib.ToolError("negative control: LinkLock.tla with HoldAcrossSend = TRUE did not deadlock")
    bindir = vlib.build_harness(["linklock"])
    op = ctx.path("linklock.ndjson")
    rounds = 6 if ctx.quick else 40
    vlib.last_json(vlib.run_bin(os.path.join(bindir, "linklock"), [rounds, op], timeout=600))
    recs = [json.loads(l) for l in open(op)]
    for r in recs:
        if not (r["router_step_done"] and r["publish_done"]):
            ctx.violation("a blocking LinkTx::publish with the router's event channel full (%d events) and the router handling an event of that link: "
                          "router step finished: %s, publish finished: %s within 15 s - LinkLock.tla says both complete (the link must not hold its buffer lock while it waits for a slot)"
                          % (r["cap"], r["router_step_done"], r["publish_done"]), {"schedule": "fill channel; thread: LinkTx::publish; router: handle one DeviceData event", "record": r})
            break
    cov = dict(getattr(ctx, "extra_coverage", None) or {})
    cov["link_lock"] = {"spec": "LinkLock.tla", "distinct": res.distinct, "deadlock_free": res.ok, "negative_control_deadlocks": True,
                        "schedule_replayed_on_real_code_rounds": len(recs), "channel_capacity_observed": recs[0]["cap"] if recs else None}
    ctx.extra_coverage = cov


def replay(ctx, path):
    import json
    print(json.dumps(json.load(open(path)), indent=1)[:4000])
