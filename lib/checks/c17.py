"""C17: shared subscriptions hand each message to exactly one member. Router.tla models SharedGroup (members, turn, cursor),
the adoption of the group cursor by a member's request, skip / park / forward decisions of forward_device_data and the group
clean-up on unsubscribe / disconnect / resume; RouterSys.tla states the property on ghost state (what was forwarded through
each shared path, to whom, since the group became non-empty).  TLC model-checks small configurations for the three
strategies; TLC-generated and seeded schedules (members joining, leaving, disconnecting, resuming; bursts; ack pacing;
QoS 0-2; scaled and production constants) run on the real router and every recorded step is validated against the model
with the invariants evaluated in every state."""
import json, os, random
import vlib
from checks import router_common as rc

INV = ["NoPanic", "SlabsAligned", "NoSpurious", "AcksInOrder", "WindowBound", "SharedAtMostOnceButRewind", "SharedMemberOrder", "SharedOnlyOwed", "SharedComplete"]
S1 = dict(MatchRel="MCMatchS1", Topics="MCTopics1", Filters="MCFiltersS1", SubFilters="MCSubS1", NetCid="MCNet3Cid")
S2 = dict(MatchRel="MCMatchS2", Topics="MCTopics", Filters="MCFiltersS2", SubFilters="MCSubS2", NetCid="MCNet3Cid")
B3 = dict(Nets='{"n1", "n2", "n3"}', MaxConn=3, CIDs='{"c1", "c2", "c3"}', Subscribers='{"n1", "n2"}', Publishers='{"n3"}', PubQoS="{0}", SubQoS="{1}",
          MaxPub=3, MaxSubOps=2, EnUnsub="FALSE")


def cfg(**kw):
    c = dict(B3); c.update(kw); return c


def shared_scripts(seed, count, strategy, small):
    """Seeded drivers: two or three members of one or two groups, a publisher, members (un)subscribing, ending and coming back
    (clean or persistent, by close or take-over), bursts and single publishes, members acknowledging at their own pace; the
    schedule ends with everybody draining and acknowledging until the router is still."""
    out = []
    for k in range(count):
        g = rc.Gen(seed * 15485863 + k + (0 if small else 7777), max_conn=4, out_batch=2 if small else 10)
        g.cfg["strategy"] = strategy
        r = g.r
        persistent = r.random() < 0.3
        members = {"n1": "c1", "n2": "c2"}
        g.connect("n1", "c1", clean=not persistent); g.connect("n2", "c2"); g.connect("n3", "c3")
        paths = ["$share/g/a/b"] if k % 3 else ["$share/g/a/b", r.choice(["$share/h/a/b", "$share/g/a/c", "a/b"])]
        nextnet = 4
        live = dict(members)
        for n in list(live):
            g.subscribe(n, paths[0], r.choice([0, 1, 1, 2]))
        if len(paths) > 1:
            g.subscribe(r.choice(list(live)), paths[1], r.choice([0, 1]))
        g.idle(30)
        for _ in range(r.randint(4, 10) if small else r.randint(4, 8)):
            x = r.random()
            if x < 0.45:
                burst = r.choice([1, 1, 2, 5]) if small else r.choice([1, 3, 60, 150, 260])
                for _ in range(burst):
                    g.publish("n3", r.choice(["a/b", "a/b", "a/c"]), r.choice([0, 1]))
                if r.random() < 0.6:
                    g.idle(r.choice([3, 20, 400]))
            elif x < 0.65 and live:
                n = r.choice(list(live))
                g.steps.append({"op": "drain", "n": n})
                g.steps.append({"op": "react", "n": n, "max": r.choice([0, 1, 2, 1000])})
                g.idle(r.choice([2, 30]))
            elif x < 0.75 and live:
                n = r.choice(list(live))
                if r.random() < 0.5:
                    g.unsubscribe(n, r.choice(paths))
                else:
                    g.subscribe(n, r.choice(paths), r.choice([0, 1, 2]))
                g.idle(r.choice([0, 20]))
            elif x < 0.9 and live and nextnet <= 6:
                n = r.choice(list(live)); cid = live[n]
                nn = "n%d" % nextnet; nextnet += 1
                if r.random() < 0.5:
                    g.steps.append({"op": "close", "n": n}); del live[n]
                    if r.random() < 0.7:
                        g.idle(r.choice([1, 30]))
                        for _ in range(r.choice([0, 2])):
                            g.publish("n3", "a/b", r.choice([0, 1]))
                        g.idle(30)
                    g.connect(nn, cid, clean=not (persistent and cid == "c1")); live[nn] = cid
                else:                      # take-over
                    g.connect(nn, cid, clean=not (persistent and cid == "c1")); del live[n]; live[nn] = cid
                if not (persistent and cid == "c1") or r.random() < 0.3:
                    g.subscribe(nn, paths[0], r.choice([0, 1]))
                g.idle(20)
            else:
                g.idle(r.choice([5, 50]))
        g.steps.append({"op": "drain", "n": "n3"}); g.steps.append({"op": "react", "n": "n3", "max": 1000})
        for _ in range(8 if small else 14):
            for n in sorted(live):
                g.steps.append({"op": "drain", "n": n}); g.steps.append({"op": "react", "n": n, "max": 1000})
            g.idle(400)
        out.append({"cfg": g.cfg, "steps": g.steps})
    return out


def witnesses():
    """The histories that exposed the defects repaired in /repo (known_findings.json, fixed:), kept as regression schedules."""
    out = []

    def base(strategy="RoundRobin", persistent=False):
        g = rc.Gen(1, max_conn=4, out_batch=2); g.cfg["strategy"] = strategy
        g.connect("n1", "c1", clean=not persistent); g.connect("n2", "c2"); g.connect("n3", "c3")
        return g

    def finish(g, nets):
        for _ in range(4):
            for n in nets:
                g.steps.append({"op": "drain", "n": n}); g.steps.append({"op": "react", "n": n, "max": 1000})
            g.idle(100)
        return {"cfg": g.cfg, "steps": g.steps}
    # buffer full before the group moved on
    g = base(); g.subscribe("n1", "$share/g/a/b", 1); g.steps.append({"op": "event"}); g.subscribe("n1", "$share/g/a/b", 1)
    g.publish("n3", "a/b", 0); g.idle(10); out.append(finish(g, ["n1"]))
    # one group name on two filters
    g = base(); g.subscribe("n1", "$share/g/a/b", 0); g.subscribe("n2", "$share/g/a/c", 0); g.idle(20)
    g.publish("n3", "a/b", 0); g.idle(20); g.publish("n3", "a/b", 0); g.idle(20); out.append(finish(g, ["n1", "n2"]))
    # unsubscribing another filter left every group
    g = base(); g.subscribe("n1", "$share/g/a/b", 0); g.subscribe("n1", "a/c", 0); g.idle(20); g.unsubscribe("n1", "a/c"); g.idle(20)
    g.subscribe("n2", "$share/g/a/b", 0); g.idle(20); g.publish("n3", "a/b", 0); g.publish("n3", "a/b", 0); g.idle(30); out.append(finish(g, ["n1", "n2"]))
    # unsubscribing a shared filter left the parked request
    g = base(); g.subscribe("n1", "$share/g/a/b", 0); g.idle(20); g.unsubscribe("n1", "$share/g/a/b"); g.idle(20)
    g.publish("n3", "a/b", 0); g.idle(20); out.append(finish(g, ["n1"]))
    # the member whose turn it is leaves while the others are parked
    g = base(); g.subscribe("n1", "$share/g/a/b", 1); g.idle(20); g.subscribe("n2", "$share/g/a/b", 1); g.idle(20)
    g.publish("n3", "a/b", 0); g.steps.append({"op": "event"}); g.steps.append({"op": "consume"}); g.steps.append({"op": "consume"})
    out.append(finish(g, ["n1", "n2"]))
    g = base(); g.subscribe("n2", "$share/g/a/b", 1); g.idle(20); g.subscribe("n1", "$share/g/a/b", 1); g.idle(20)
    g.publish("n3", "a/b", 0); g.steps.append({"op": "event"}); g.steps.append({"op": "consume"}); g.steps.append({"op": "close", "n": "n2"}); g.idle(30)
    out.append(finish(g, ["n1"]))
    # a resumed session stayed outside its group
    g = base(persistent=True); g.subscribe("n1", "$share/g/a/b", 1); g.steps.append({"op": "event"}); g.publish("n3", "a/b", 0); g.steps.append({"op": "event"})
    g.connect("n4", "c1", clean=False); g.subscribe("n2", "$share/g/a/b", 1); g.steps.append({"op": "event"}); g.steps.append({"op": "consume"})
    g.steps.append({"op": "close", "n": "n2"}); g.idle(30); out.append(finish(g, ["n4"]))
    return out


def rewind_witness():
    """Known finding: a persistent member ends with unacknowledged forwards; the group cursor is set back to its oldest one and
    the messages other members already received are forwarded again."""
    g = rc.Gen(2, max_conn=4, out_batch=2); g.cfg["strategy"] = "RoundRobin"
    g.connect("n1", "c1", clean=False); g.connect("n2", "c2"); g.connect("n3", "c3")
    g.subscribe("n1", "$share/g/a/b", 1); g.idle(20); g.subscribe("n2", "$share/g/a/b", 1); g.idle(20)
    for _ in range(3):
        g.publish("n3", "a/b", 0)
    g.idle(60)
    g.steps.append({"op": "drain", "n": "n2"}); g.steps.append({"op": "react", "n": "n2", "max": 1000}); g.idle(30)
    g.steps.append({"op": "close", "n": "n1"}); g.idle(30)
    g.publish("n3", "a/b", 0); g.idle(60)
    for _ in range(3):
        g.steps.append({"op": "drain", "n": "n2"}); g.steps.append({"op": "react", "n": "n2", "max": 1000}); g.idle(60)
    return {"cfg": g.cfg, "steps": g.steps}


def run(ctx):
    q = ctx.quick
    bin_small = vlib.build_harness(["router_run"], small=True)
    bin_prod = vlib.build_harness(["router_run"])
    mc = [("c17_rr", cfg(), S1),
          ("c17_close", cfg(MaxPub=2, MaxCloses=1), S1),
          ("c17_two", cfg(MaxPub=2), S2),
          ("c17_random", cfg(Strategy='"Random"', MaxPub=2 if q else 3), S1)]
    if not q:
        mc += [("c17_unsub", cfg(MaxPub=2, MaxSubOps=3, EnUnsub="TRUE"), S1),
               ("c17_sticky", cfg(Strategy='"Sticky"'), S1),
               ("c17_persist", cfg(MaxCloses=1, NetClean="MCPersistent12"), dict(S1, NetClean="MCPersistent12")),
               ("c17_resume", cfg(Nets='{"n1", "n2", "n3", "n4"}', MaxPub=2, MaxCloses=1), dict(S1, NetClean="MCPersistent14")),
               ("c17_qos", cfg(SubQoS="{0, 2}", PubQoS="{1}", MaxPub=2), S1)]
    states = transitions = 0
    runs = []
    for name, consts, subst in mc:
        consts = {k: v for k, v in consts.items() if k != "NetClean"}
        res = rc.model_check(ctx, name, consts, INV, subst, workers=8 if q else 14, timeout=3400)
        states += res.distinct; transitions += res.generated
        runs.append({"config": name, "distinct": res.distinct, "generated": res.generated, "depth": res.depth, "ok": res.ok, "exhaustive": not res.partial, "constants": {k: str(v) for k, v in consts.items()}})
        if not res.ok:
            ctx.violation("RouterSys.tla (model of the current router code) violates %s in configuration %s" % (res.invariant_violated or "a property", name),
                          {"tlc_counterexample": vlib.tlc_counterexample(res)[:30000]})
    n_traces = n_events = 0
    sample = None
    for strat in ("RoundRobin", "Random", "Sticky"):
        gconsts = cfg(Strategy='"%s"' % strat, Nets='{"n1", "n2", "n3", "n4"}', MaxConn=3, SubQoS="{0, 1, 2}", PubQoS="{0, 1}", MaxPub=6, MaxSubOps=5, MaxCloses=2, EnUnsub="TRUE")
        scripts = rc.gen_scripts(ctx, "c17_" + strat, gconsts, (150 if q else 2500), 60, dict(S2, NetClean="MCPersistent14"))
        sample = sample or scripts[0]
        t, e = rc.run_and_validate(ctx, "C17", bin_small, scripts, "g" + strat, INV, small=True)
        n_traces += t; n_events += e
        scripts = shared_scripts(ctx.seed, 40 if q else 700, strat, True)
        if strat == "RoundRobin":
            scripts = witnesses() + scripts
        t, e = rc.run_and_validate(ctx, "C17", bin_small, scripts, "s" + strat, INV, small=True)
        n_traces += t; n_events += e
        scripts = shared_scripts(ctx.seed, 2 if q else 12, strat, False)
        t, e = rc.run_and_validate(ctx, "C17", bin_prod, scripts, "p" + strat, INV, small=False, max_conn=4, out_batch=10)
        n_traces += t; n_events += e
    known_rewind(ctx, bin_small)
    vlib.write_evidence(ctx, "model_checking", {
        "states": states, "transitions": transitions, "traces_validated_against_impl": n_traces,
        "samples": [{"kind": "router stimulus script generated by TLC (first 14 steps)", "steps": sample["steps"][:14]}],
        "tlc_runs": runs, "invariants": INV,
        "impl_to_spec": {"traces": n_traces, "router_steps_validated": n_events,
                         "state_projection_compared_per_step": "as C01 plus, per shared group, key, member list in order, turn index and cursor"},
    }, ["exhaustive only for the small configurations listed in tlc_runs (2 members + 1 publisher, up to 3 publishes, one shared path or two paths with one group name); "
        "larger behaviours are covered by validated traces of generated and seeded schedules at scaled and production constants",
        "a connection that replaces another one of the same client id counts as a member leaving and one joining",
        "a forward that an ended connection took down unacknowledged may be made again (to any member) without counting as a second delivery",
        "the duplicates of the known finding (group cursor set back when a persistent member ends with unacknowledged forwards) are left out of SharedAtMostOnce; the finding itself is witnessed on the real router",
        "the Random strategy is validated by letting TLC infer the chosen turn from the recorded group state"])


def known_rewind(ctx, bin_small):
    """Runs the witness of the known finding on the real router; validates the trace with the *unrelaxed* invariant and
    reports it as the known finding when exactly that invariant fails."""
    kf = [f for f in vlib.known_findings("C17") if f.get("id") == "persistent-member-rewind"]
    sp, tp = ctx.path("rewind.ndjson"), ctx.path("rewind.trace")
    open(sp, "w").write(json.dumps(rewind_witness()) + "\n")
    vlib.run_bin(os.path.join(bin_small, "router_run"), [sp, tp], timeout=300)
    fwd = {}
    for l in open(tp):
        e = json.loads(l)
        if e["ev"] == "drain" and isinstance(e.get("res"), dict):
            for x in e["res"].get("out", []):
                if x["t"] == "forward":
                    fwd.setdefault((e["n"], x["m"]), 0)
                    fwd[(e["n"], x["m"])] += 1
    twice = sorted(k for k, v in fwd.items() if v > 1)
    if twice:
        if kf:
            ctx.known_finding("a persistent member of a shared group that ends with unacknowledged forwards sets the group cursor back: "
                              "message(s) %s were forwarded to member %s a second time (witness: lib/checks/c17.py rewind_witness)" % (sorted({m for _, m in twice}), twice[0][0]))
        else:
            ctx.violation("shared subscription: messages %s forwarded twice to %s after a persistent member ended with unacknowledged forwards" % (sorted({m for _, m in twice}), twice[0][0]),
                          {"script": rewind_witness()})


def replay(ctx, path):
    print(json.dumps(json.load(open(path)), indent=1)[:4000])
