"""C06: exactly one matching ack per request, in order, QoS 2 forwarded on release. See router_common.py."""
from checks import router_common as rc

INV = ["NoPanic", "AcksInOrder", "QuiescentComplete", "DeliveredExactly", "NoLostRequest"]


def run(ctx):
    q = ctx.quick
    mc = [("c06_a", dict(MaxPub=2, MaxSubOps=1 if q else 2, SubQoS="{1}", PubQoS="{1, 2}", EnPing="TRUE"), None)]
    if not q:
        mc.append(("c06_b", dict(MaxPub=3, MaxSubOps=3, SubQoS="{0, 2}", PubQoS="{2}", EnPing="TRUE"), None))
    gen = [("c06_g", dict(Nets='{"n1", "n2", "n3"}', SubQoS="{0, 1, 2}", PubQoS="{1, 2}", Subscribers='{"n1", "n2", "n3"}', Publishers='{"n1", "n2"}',
                          MaxPub=8, MaxSubOps=6, MaxCloses=1, EnPing="TRUE", EnDisconnect="TRUE"),
            dict(Topics="MCTopics3", Filters="MCFilters3", MatchRel="MCMatch3"), 600 if q else 6000, 45)]
    rc.liveness(ctx, "c06_live", dict(MaxPub=1 if q else 2, MaxSubOps=1, SubQoS="{1}", PubQoS="{1, 2}", EnPing="TRUE"))
    rc.run_router_property(ctx, "C06", mc, gen, INV)


def replay(ctx, path):
    import json
    print(json.dumps(json.load(open(path)), indent=1)[:4000])
