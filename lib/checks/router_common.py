"""Shared machinery of the rumqttd routing-core checks.

 1. TLC model-checks RouterSys.tla (Router.tla + links + clients) exhaustively for a small, property-focused
    configuration with the property's invariants.
 2. TLC simulates the same model with richer constants and records the stimuli (script); the real Router
    (scaled-constant build: window 3, buffer 4, 2 scheduling iterations) is stepped through every script by
    router_run, which records after every step what it returned and a projection of the router state;
    TLC validates the recorded traces against RouterTrace.tla (every step must be a model step with exactly that
    projection) and evaluates the property's invariants in every state of every trace.
 3. Seeded random scripts at production constants (window 100, buffer 200) are validated the same way.
"""
import json, os, random
import vlib

RFIX = '{"ready_unknown", "unsuback_one", "unsub_notifs", "resume_submap", "group_bufferfull", "group_per_filter", "unsub_own_group", "unsub_shared_waiter", "group_skip_unread", "resume_rejoin"}'

ALL_INV = ["NoPanic", "SlabsAligned", "ReadyqSound", "NoLostRequest", "DeliveredExactly", "NoSpurious", "AcksInOrder",
           "WindowBound", "UniqueInflightIds", "InflightIdsValid", "QuiescentComplete"]

BASE = dict(
    Nets='{"n1", "n2"}', MaxConn=2, MaxInflight=3, MaxChan=4, MaxSched=2, OutBatch=2,
    CIDs='{"c1", "c2"}', SubQoS="{1}", PubQoS="{0, 1}", PubRetain="{FALSE}",
    Subscribers='{"n1"}', Publishers='{"n2"}', Adversaries="{}", MaxPub=3, MaxSubOps=2, MaxCloses=0,
    EnUnsub="TRUE", EnPing="FALSE", EnDisconnect="FALSE", EnStale="FALSE", PubEmpty="{FALSE}", RFix=RFIX, Strategy='"RoundRobin"')
SUBST = dict(MatchRel="MCMatch", Topics="MCTopics", Filters="MCFilters", NetCid="MCNetCid", NetClean="MCAllClean", NetWill="MCNoWill")


def cfg_text(consts, subst, tail):
    s = "CONSTANTS\n"
    for k, v in consts.items():
        s += "  %s = %s\n" % (k, v)
    for k, v in subst.items():
        s += "  %s <- %s\n" % (k, v)
    return s + tail


def write(ctx, name, text):
    p = ctx.path(name + ".cfg")
    open(p, "w").write(text)
    return p


def model_check(ctx, name, consts, inv, subst=None, workers=8, timeout=3000, act=()):
    c = dict(BASE); c.update(consts)
    sb = dict(SUBST); sb.update(subst or {})
    sb.setdefault("SubFilters", sb["Filters"])
    tail = "SPECIFICATION Spec\nCONSTRAINT ChanBound\nINVARIANTS %s\n" % " ".join(inv)
    if act:
        tail += "PROPERTIES %s\n" % " ".join(act)
    cfg = write(ctx, "MC_Router_" + name, cfg_text(c, sb, tail + "CHECK_DEADLOCK FALSE\n"))
    # a run that does not finish within the budget is reported as not exhaustive (evidence: exhaustive false), not as an error
    budget = min(timeout, 1200 if ctx.quick else 1500)
    return vlib.run_tlc(ctx, "MC_Router", cfg=cfg, workers=workers, timeout=budget, heap="24g", allow_timeout=True)


def liveness(ctx, name, consts, props=("ComesToRest", "EveryAckArrives"), subst=None, workers=6, timeout=2400):
    """Temporal properties under weak fairness of the router thread, the link tasks and the clients (MC_Router!FairSpec; the
    buffer bounds are part of the next-state relation, there is no state constraint). Records the run in ctx.extra_coverage."""
    c = dict(BASE); c.update(consts)
    sb = dict(SUBST); sb.update(subst or {})
    sb.setdefault("SubFilters", sb["Filters"])
    cfg = write(ctx, "MC_RouterLive_" + name, cfg_text(c, sb, "SPECIFICATION FairSpec\nPROPERTIES %s\nCHECK_DEADLOCK FALSE\n" % " ".join(props)))
    res = vlib.run_tlc(ctx, "MC_Router", cfg=cfg, workers=workers, timeout=timeout, heap="16g", allow_timeout=True, name="live_" + name)
    run = {"config": name, "specification": "FairSpec (WF of router events, scheduling turns, every link and every client)", "properties": list(props),
           "distinct": res.distinct, "generated": res.generated, "ok": res.ok, "exhaustive": not res.partial, "constants": {k: str(v) for k, v in consts.items()}}
    if not res.ok:
        ctx.violation("RouterSys.tla (model of the current router code) under fairness violates %s in configuration %s: the router does not come to rest / a reply never arrives"
                      % (res.property_violated or props, name), {"tlc_counterexample": vlib.tlc_counterexample(res)[:30000]})
    cov = dict(getattr(ctx, "extra_coverage", None) or {})
    cov.setdefault("liveness_runs", []).append(run)
    ctx.extra_coverage = cov
    return res


def gen_scripts(ctx, name, consts, want, depth, subst=None):
    c = dict(BASE); c.update(consts); c["EmitAt"] = depth
    sb = dict(SUBST); sb.update(subst or {})
    sb.setdefault("SubFilters", sb["Filters"])
    cfg = write(ctx, "MC_RouterGen_" + name, cfg_text(c, sb, "SPECIFICATION GenSpec\nINVARIANTS EmitScript\nCHECK_DEADLOCK FALSE\n"))
    scripts = vlib.tlc_generate(ctx, "MC_RouterGen", cfg, "SCRIPT", want, depth, workers=3, name="routergen_" + name)
    # epilogue: the behaviour TLC generated stops anywhere; every client then takes what is waiting for it and answers it, and
    # the router runs until it says it has nothing to do, so that what the behaviour left behind becomes observable
    epi = []
    for _ in range(3):
        for n in ("n1", "n2", "n3", "n4"):
            epi += [{"op": "drain", "n": n}, {"op": "react", "n": n, "max": 100}]
        epi.append({"op": "idle", "max": 60})
    for sc in scripts:
        sc["steps"] = list(sc["steps"]) + epi
    return scripts


def run_and_validate(ctx, pid, bindir, scripts, tag, inv, small, max_conn=2, out_batch=2, nets='{"n1", "n2", "n3", "n4", "n5", "n6"}', act=()):
    """Runs the scripts on the real router and validates the traces. Returns (scripts, events)."""
    sp, tp = ctx.path("rscripts_%s.ndjson" % tag), ctx.path("rtraces_%s.ndjson" % tag)
    with open(sp, "w") as f:
        for s in scripts:
            f.write(json.dumps(s) + "\n")
    summ = vlib.last_json(vlib.run_bin(os.path.join(bindir, "router_run"), [sp, tp], timeout=1800))
    lines = open(tp).read().splitlines()
    if summ["panics"]:
        i = next(i for i, l in enumerate(lines) if '"panic"' in l)
        start = max(j for j in range(i + 1) if '"ev":"reset"' in lines[j])
        e = json.loads(lines[i])
        ctx.violation("the real router panicked at %s (%s) while handling a %s step" % (e.get("at"), e.get("panic"), e.get("ev")),
                      {"script": script_of(lines[start:i + 1]), "panic": e.get("panic"), "at": e.get("at")})
        return summ["scripts"], summ["events"]       # the state after a panic means nothing; the violation stands
    max_conn = scripts[0].get("cfg", {}).get("max_conn", max_conn)
    out_batch = scripts[0].get("cfg", {}).get("out_batch", out_batch)
    consts = dict(Nets=nets, MaxConn=max_conn, MaxInflight=3 if small else 100, MaxChan=4 if small else 200, MaxSched=2 if small else 100,
                  OutBatch=out_batch, CIDs='{"c1", "c2", "c3"}', SubQoS="{}", PubQoS="{}", PubRetain="{}", Subscribers="{}", Publishers="{}",
                  Adversaries="{}", MaxPub=0, MaxSubOps=0, MaxCloses=100, EnUnsub="TRUE", EnPing="TRUE", EnDisconnect="TRUE", EnStale="TRUE", PubEmpty="{}", RFix=RFIX,
                  Strategy='"%s"' % scripts[0].get("cfg", {}).get("strategy", "RoundRobin"), Strict="TRUE")
    subst = dict(MatchRel="TMatch", Topics="TTopics", Filters="TFilters", SubFilters="TFilters", NetCid="TNetCid", NetClean="TClean", NetWill="TNoWill")
    tail = ("SPECIFICATION TraceSpec\nINVARIANTS %s\n%sCONSTRAINT Progress\nPOSTCONDITION TraceAccepted\nCHECK_DEADLOCK FALSE\n"
            % (" ".join(inv), ("PROPERTIES %s\n" % " ".join(act)) if act else ""))
    import re

    def validate(path, strict, name):
        c = dict(consts); c["Strict"] = "TRUE" if strict else "FALSE"
        cfg = write(ctx, "MC_RouterTrace_" + name, cfg_text(c, subst, tail))
        res = vlib.run_tlc_raw(ctx, "MC_RouterTrace", cfg=cfg, workers=1, timeout=2400, env={"TRACE": path}, dfs=True, name="rtrace_" + name, heap="12g")
        if res.invariant_violated or res.property_violated:
            m = re.findall(r"/\\ l = (\d+)", res.out)
            which = res.invariant_violated[0] if res.invariant_violated else "action property " + " ".join(act)
            return ("inv", which, int(m[-1]) - 1 if m else 0)
        if "TRACE-REJECTED" in res.out or "Postcondition" in res.out:
            m = re.search(r'"TRACE-REJECTED at line",\s*(\d+)', res.out)
            return ("rejected", None, int(m.group(1)) if m else 0)
        if not res.ok:
            raise vlib.ToolError("router trace validation failed to run: %s" % (res.error,))
        return None

    def behaviour_at(line):
        line = min(max(line, 1), len(lines))
        start = max(j for j in range(line) if '"ev":"reset"' in lines[j])
        nxt = [j for j in range(line, len(lines)) if '"ev":"reset"' in lines[j]]
        return start, line, (nxt[0] if nxt else len(lines))

    bad = validate(tp, True, tag)
    if bad and not summ["panics"]:
        kind, which, line = bad
        start, line, end = behaviour_at(line)
        e = json.loads(lines[line - 1])
        where = "step %d of the behaviour: %s %s -> %s" % (line - start, e.get("ev"), e.get("n", ""), json.dumps(e.get("res"))[:200])
        if kind == "inv":
            ctx.violation("%s violated in a recorded execution of the real router: %s" % (which, where), {"script": script_of(lines[start:line]), "small_constants": small})
        else:
            # second stage: is what the links observed (in all recorded behaviours) explainable by the model at all?
            obs = validate(tp, False, tag + "_obs")
            if obs is None:
                msg = ("the router's internal state differs from RouterSys.tla at %s, but everything the links observed in this behaviour is a behaviour of the model "
                       "and the invariants hold on it: the exhaustive TLC results no longer speak about this code (update Router.tla), no property violation shown" % where)
                print("DRIFT property=%s %s" % (pid, msg))
                ctx.drift.append({"note": msg, "script": script_of(lines[start:line])})
            else:
                okind, owhich, oline = obs
                ostart, oline, oend = behaviour_at(oline)
                e2 = json.loads(lines[oline - 1])
                what = ("%s violated" % owhich) if okind == "inv" else "what the links observed is not a behaviour of RouterSys.tla"
                ctx.violation("recorded execution of the real router: %s at step %d of the behaviour: %s %s -> %s (the recorded router state first leaves the model at %s)"
                              % (what, oline - ostart, e2.get("ev"), e2.get("n", ""), json.dumps(e2.get("res"))[:160], where),
                              {"script": script_of(lines[ostart:oend]), "small_constants": small})
    return summ["scripts"], summ["events"]


def script_of(trace_lines):
    steps, cfg = [], None
    for l in trace_lines:
        e = json.loads(l)
        if e["ev"] == "reset":
            cfg = e["cfg"]
            continue
        st = {"op": e["ev"]}
        for k in ("n", "cid", "clean", "will", "pk", "kind", "id"):
            if k in e:
                st[k] = e[k]
        steps.append(st)
    return {"cfg": cfg, "steps": steps}


# ---------------------------------------------------------------- random scripts at production constants
NOMSG = {"m": 0, "topic": "none", "q": 0, "retain": False, "empty": False}


def ch(s):
    # a shared path is <<"$share/", group, "/", filter symbols...>> in Router.tla
    if s.startswith("$share/") and "/" in s[7:]:
        group, path = s[7:].split("/", 1)
        return ["$share/", group, "/"] + list(path)
    return list(s)


class Gen:
    """Seeded generator of plausible client behaviour with big backlogs; every step is a harness op."""

    def __init__(self, seed, max_conn=3, out_batch=10):
        self.r = random.Random(seed)
        self.cfg = {"max_conn": max_conn, "out_batch": out_batch}
        self.steps = []
        self.m = 0
        self.pk = {}

    def pkid(self, n):
        self.pk[n] = self.pk.get(n, 0) % 60000 + 1
        return self.pk[n]

    def settle(self, k=6):
        for _ in range(k):
            self.steps.append({"op": "event"})
        for _ in range(k):
            self.steps.append({"op": "consume"})

    def idle(self, budget=400):
        self.steps.append({"op": "idle", "max": budget})

    def connect(self, n, cid, clean=True, will=None):
        will = will if isinstance(will, dict) else {"m": 0, "topic": "none", "q": 0, "retain": False}
        self.steps += [{"op": "connect", "n": n, "cid": cid, "clean": clean, "will": will}, {"op": "event"}, {"op": "consume"}, {"op": "finish", "n": n}]

    def push(self, n, pk):
        self.steps.append({"op": "push", "n": n, "pk": pk})

    def publish(self, n, topic, q, retain=False, empty=False):
        self.m += 1
        self.push(n, {"t": "publish", "id": 0 if q == 0 else self.pkid(n), "msg": {"m": self.m, "topic": ch(topic), "q": q, "retain": retain, "empty": empty}, "fs": []})

    def subscribe(self, n, f, q):
        self.push(n, {"t": "subscribe", "id": self.pkid(n), "msg": NOMSG, "fs": [[ch(f), q]]})

    def unsubscribe(self, n, f):
        self.push(n, {"t": "unsubscribe", "id": self.pkid(n), "msg": NOMSG, "fs": [[ch(f), 0]]})

    def ack(self, n, kind, i):
        self.push(n, {"t": kind, "id": i, "msg": NOMSG, "fs": []})


def backlog_scripts(seed, count):
    """Subscriber with QoS 1/0 subscriptions, publisher floods several hundred messages, subscriber drains and acks with
    different pacing; crosses the 100-message window and the 200-slot buffer many times."""
    out = []
    for k in range(count):
        g = Gen(seed * 1000 + k)
        r = g.r
        g.connect("n1", "c1")
        g.connect("n2", "c2")
        kind = ["window", "buffer", "mixed"][k % 3]
        fq = r.choice([("a/+", 1), ("a/b", 1), ("#", 1), ("a/b", 2)]) if kind != "buffer" else r.choice([("a/+", 0), ("#", 0)])
        g.subscribe("n1", fq[0], fq[1]); g.settle(2); g.steps.append({"op": "drain", "n": "n1"})
        if kind == "mixed":
            f2 = r.choice([("a/b", 0), ("#", 0), ("a/c", 1)])
            if f2[0] != fq[0]:
                g.subscribe("n1", f2[0], f2[1]); g.settle(2)
        total = r.choice([120, 250, 330]) if kind != "buffer" else r.choice([260, 450])
        sent = 0
        pace = r.choice(["none", "one", "burst", "all"])
        while sent < total:
            burst = r.choice([1, 5, 40, 110])
            for _ in range(min(burst, total - sent)):
                g.publish("n2", r.choice(["a/b", "a/b", "a/c"]), r.choice([0, 1, 2]) if kind != "buffer" else 0)
                sent += 1
            if r.random() < 0.5:
                g.settle(r.choice([1, 2, 4]))
            else:
                g.idle(r.choice([20, 150, 400]))
            g.steps.append({"op": "drain", "n": "n2"})
            g.steps.append({"op": "react", "n": "n2", "max": 1000})      # the publisher releases its QoS 2 publishes
            if r.random() < (0.7 if kind != "buffer" else 0.25):
                g.steps.append({"op": "drain", "n": "n1"})
                k = {"none": 0, "one": 1, "burst": r.choice([3, 50]), "all": 1000}[pace]
                if k:
                    g.steps.append({"op": "react", "n": "n1", "max": k})
                g.settle(1)
        for _ in range(40):
            g.steps.append({"op": "drain", "n": "n1"})
            g.steps.append({"op": "react", "n": "n1", "max": 1000})
            g.steps.append({"op": "drain", "n": "n2"})
            g.steps.append({"op": "react", "n": "n2", "max": 1000})
            g.idle(400)
        out.append({"cfg": g.cfg, "steps": g.steps})
    return out


def run_router_property(ctx, pid, mc_runs, gen_runs, inv, big=True, act=(), trace_act=None):
    """mc_runs: [(name, consts, subst)], gen_runs: [(name, consts, subst, want, depth)]"""
    bin_small = vlib.build_harness(["router_run"], small=True)
    bin_prod = vlib.build_harness(["router_run"])
    states = transitions = 0
    runs = []
    for name, consts, subst in mc_runs:
        res = model_check(ctx, name, consts, inv, subst, workers=8 if ctx.quick else 14, act=act)
        states += res.distinct; transitions += res.generated
        runs.append({"config": name, "distinct": res.distinct, "generated": res.generated, "depth": res.depth, "ok": res.ok, "exhaustive": not res.partial,
                     "constants": {k: str(v) for k, v in consts.items()}})
        if not res.ok:
            ctx.violation("RouterSys.tla (model of the current router code) violates %s in configuration %s" % (res.invariant_violated or "an action property", name),
                          {"tlc_counterexample": vlib.tlc_counterexample(res)[:30000]})
    n_traces = n_events = 0
    sample = None
    for name, consts, subst, want, depth in gen_runs:
        scripts = gen_scripts(ctx, name, consts, want, depth, subst)
        sample = sample or scripts[0]
        t, e = run_and_validate(ctx, pid, bin_small, scripts, name, inv, small=True, act=act if trace_act is None else trace_act)
        n_traces += t; n_events += e
    scripts = scenario_scripts(ctx.seed, 120 if ctx.quick else 1500)
    t, e = run_and_validate(ctx, pid, bin_small, scripts, "scen", inv, small=True, act=act if trace_act is None else trace_act)
    n_traces += t; n_events += e
    if big:
        scripts = backlog_scripts(ctx.seed, 3 if ctx.quick else 12)
        t, e = run_and_validate(ctx, pid, bin_prod, scripts, "prod", inv, small=False, max_conn=3, out_batch=10, act=act if trace_act is None else trace_act)
        n_traces += t; n_events += e
    vlib.write_evidence(ctx, "model_checking", {
        "states": states, "transitions": transitions, "traces_validated_against_impl": n_traces,
        "samples": [{"kind": "router stimulus script generated by TLC (first 14 steps)", "steps": sample["steps"][:14]}] if sample else [{"note": "none"}],
        "tlc_runs": runs, "invariants": list(inv) + list(act),
        "impl_to_spec": {"traces": n_traces, "router_steps_validated": n_events,
                         "state_projection_compared_per_step": "per connection: status, requests(filter,qos,cursor,retained flag), inflight triples, last pkid, pubrels, pending acks, recorded count, buffer lengths, doorbell tokens; ready queue; per filter log length and waiters; connection map; subscription map; retained topics; wills; graveyard"},
    }, ["exhaustive only for the small configurations listed in tlc_runs; larger behaviours (window 100, buffer 200, backlogs of several hundred messages) are covered by validated traces of seeded drivers",
        "the router is stepped single-threaded through the verif hooks (events and consume() turns in any interleaving, a superset of what run_inner can do)",
        "topic aliases, subscription identifiers, message expiry and segment eviction are not modelled in these configurations",
        "a recorded execution that RouterSys.tla cannot explain is reported as a violation (the model is the reference for the current code)"])


# ---------------------------------------------------------------- C03: beyond the model
def fuzz_scripts(seed, count):
    """Schedules with features Router.tla does not model (shared subscriptions, Unicode and odd topics, Shadow requests,
    invalid client ids, unsolicited acks, stale raw events). They are only checked for panics and for the broker still
    serving a fresh client afterwards (probe)."""
    out = []
    topics = ["a/b", "a/c", "\u00e9/x", "\u20acuro", "$SYS/x", "", "/", "a//b", "a/b/c/d/e", "#", "+/+"]
    filters = ["a/b", "a/+", "#", "+/+", "$share/g/a/b", "$share/g/a/+", "$share/h/#", "$SYS/#", "\u00e9/#", "a/b/#", "$share/g", "$share//a", "+"]
    cids = ["c1", "c2", "c3", "bad/id", "x#", ""]
    for k in range(count):
        g = Gen(seed * 7919 + k, max_conn=3, out_batch=r_choice(seed + k, [1, 2, 10]))
        r = g.r
        nets = []
        for i in range(r.randint(2, 4)):
            n = "n%d" % (i + 1)
            g.connect(n, r.choice(cids[:4]), clean=r.random() < 0.5,
                      will=r.choice([None, None, {"m": 9000 + i, "topic": ch(r.choice(topics[:4])), "q": r.choice([0, 1]), "retain": r.random() < 0.3}]))
            nets.append(n)
        for _ in range(r.randint(20, 70)):
            n = r.choice(nets)
            x = r.random()
            if x < 0.22:
                g.subscribe(n, r.choice(filters), r.choice([0, 1, 2]))
            elif x < 0.30:
                g.unsubscribe(n, r.choice(filters))
            elif x < 0.55:
                g.publish(n, r.choice(topics), r.choice([0, 1, 2]), retain=r.random() < 0.2, empty=r.random() < 0.1)
            elif x < 0.65:
                g.ack(n, r.choice(["puback", "pubrec", "pubrel", "pubcomp"]), r.randint(0, 3))
            elif x < 0.75:
                g.steps.append({"op": "drain", "n": n}); g.steps.append({"op": "react", "n": n, "max": r.choice([0, 1, 100])})
            elif x < 0.80:
                g.steps.append({"op": "rawevent", "kind": r.choice(["Ready", "Disconnect", "DeviceData", "Shadow"]), "id": r.randint(0, 4)})
            elif x < 0.86:
                g.steps.append({"op": "close", "n": n}); g.steps.append({"op": "will", "n": n})
            elif x < 0.92:
                nn = "n%d" % (len(nets) + 1)
                g.connect(nn, r.choice(cids[:3]), clean=r.random() < 0.5); nets.append(nn)
            else:
                g.push(n, {"t": r.choice(["pingreq", "disconnect"]), "id": 0, "msg": NOMSG, "fs": []})
            if r.random() < 0.6:
                g.idle(r.choice([3, 50, 400]))
        # probe: everybody goes away, a fresh pair must be served
        g.idle(600)
        g.steps.append({"op": "closeall"})
        g.idle(600)
        g.connect("p1", "probe1"); g.connect("p2", "probe2")
        g.subscribe("p1", "probe/t", 1); g.idle(50); g.steps.append({"op": "drain", "n": "p1"})
        g.publish("p2", "probe/t", 1); g.idle(50); g.steps.append({"op": "drain", "n": "p1", "probe": True})
        out.append({"cfg": g.cfg, "steps": g.steps})
    return out


def r_choice(seed, xs):
    return random.Random(seed).choice(xs)


def run_fuzz(ctx, bindir, scripts, tag):
    """Runs scripts without trace validation: panics and failed probes are violations."""
    sp, tp = ctx.path("fuzz_%s.ndjson" % tag), ctx.path("fuzztr_%s.ndjson" % tag)
    with open(sp, "w") as f:
        for s in scripts:
            f.write(json.dumps(s) + "\n")
    summ = vlib.last_json(vlib.run_bin(os.path.join(bindir, "router_run"), [sp, tp], timeout=1800))
    lines = open(tp).read().splitlines()
    probes_ok = 0
    start = 0
    for i, l in enumerate(lines):
        if '"ev":"reset"' in l:
            start = i
        if '"panic"' in l:
            e = json.loads(l)
            ctx.violation("the real router panicked at %s (%s) while handling a %s step" % (e.get("at"), e.get("panic"), e.get("ev")),
                          {"script": script_of(lines[start:i + 1]), "panic": e.get("panic"), "at": e.get("at")})
        elif '"probe":true' in l:
            e = json.loads(l)
            got = [x for x in e["res"].get("out", []) if x.get("t") == "forward"] if isinstance(e.get("res"), dict) else []
            if got:
                probes_ok += 1
            else:
                ctx.violation("after the schedule the broker no longer serves a fresh client (probe publish not delivered)", {"script": script_of(lines[start:i + 1])})
    return summ["scripts"], summ["events"], probes_ok


# ---------------------------------------------------------------- structured scenarios (small-constant build)
def scenario_scripts(seed, count):
    """Seeded variants of situations the random walk of the model reaches rarely: a wildcard filter created after its
    topics were published to, overlapping subscriptions of one client, publish and (un)subscribe in one batch, backlogs
    larger than one scheduling turn / the window / the buffer, retained messages against the window, re-subscription."""
    out = []
    topics = ["a/b", "a/c", "b"]
    for k in range(count):
        g = Gen(seed * 104729 + k, max_conn=3, out_batch=2)
        r = g.r
        kind = k % 10
        g.connect("n1", "c1"); g.connect("n2", "c2")
        q1 = r.choice([0, 1, 2])
        if kind == 0:          # late wildcard
            first = r.choice([["#"], ["a/b", "a/c"], ["a/b"], ["b"], ["a/+"]])
            for f in first:
                g.subscribe("n1", f, q1)
            g.idle(20)
            for _ in range(r.randint(2, 5)):
                g.publish("n2", r.choice(topics), r.choice([0, 1]))
            g.idle(40)
            g.connect("n3", "c3"); g.subscribe("n3", r.choice([f for f in ["a/+", "#", "a/b"] if f not in first]), r.choice([0, 1])); g.idle(20)
            for t in topics + [r.choice(topics)]:
                g.publish("n2", t, r.choice([0, 1]))
        elif kind == 1:        # overlapping subscriptions of one client
            for f in r.sample(["a/b", "a/+", "#", "a/c"], 3):
                g.subscribe("n1", f, r.choice([0, 1, 2]))
                if r.random() < 0.5:
                    g.idle(10)
            for _ in range(r.randint(3, 7)):
                g.publish("n2", r.choice(topics), r.choice([0, 1, 2]))
        elif kind == 2:        # publish and (un)subscribe in one batch (sometimes with a second client parked on the same filter)
            g.subscribe("n1", "a/+", q1); g.idle(20); g.steps.append({"op": "drain", "n": "n1"})
            if r.random() < 0.6:
                g.connect("n3", "c3"); g.subscribe("n3", "a/+", r.choice([0, 1])); g.idle(20)
            g.publish("n1", "a/b", r.choice([0, 1])); g.unsubscribe("n1", "a/+")
            if r.random() < 0.5:
                g.subscribe("n1", "a/+", r.choice([0, 1]))
            g.idle(30)
            g.publish("n2", "a/b", 1); g.publish("n2", "a/c", 0)
        elif kind == 3:        # backlog larger than window / buffer / scheduling turn
            g.subscribe("n1", r.choice(["a/+", "#"]), r.choice([0, 1, 2]))
            if r.random() < 0.5:
                g.subscribe("n1", "a/b", r.choice([0, 1]))
            g.idle(20)
            for _ in range(r.randint(6, 14)):
                g.publish("n2", r.choice(topics[:2]), r.choice([0, 1]))
                if r.random() < 0.3:
                    g.idle(r.choice([2, 10]))
        elif kind == 4:        # retained messages against the window
            for t in r.sample(topics, r.randint(1, 3)):
                g.publish("n2", t, r.choice([0, 1]), retain=True)
            if r.random() < 0.3:
                g.publish("n2", r.choice(topics), 0, retain=True, empty=True)
            g.idle(30)
            g.subscribe("n1", r.choice(["a/b", "a/+"]), 1); g.idle(10)
            for _ in range(r.randint(2, 6)):
                g.publish("n2", r.choice(topics[:2]), r.choice([0, 1]))
            g.subscribe("n1", "#", r.choice([1, 2]))
        elif kind == 6:        # two subscribers parked on the same filter, one of them unsubscribes
            g.connect("n3", "c3")
            f = r.choice(["a/b", "a/+", "#"])
            order = ["n1", "n3"] if r.random() < 0.5 else ["n3", "n1"]
            for n in order:
                g.subscribe(n, f, r.choice([0, 1])); g.idle(20)
            if r.random() < 0.5:
                g.publish("n2", "a/b", 0); g.idle(30)
            leaver = r.choice(order)
            g.unsubscribe(leaver, f); g.idle(20)
            for _ in range(r.randint(1, 4)):
                g.publish("n2", r.choice(["a/b", "a/b", "a/c"]), r.choice([0, 1]))
            g.idle(30)
            if r.random() < 0.4:
                g.subscribe(leaver, f, r.choice([0, 1])); g.idle(10); g.publish("n2", "a/b", 0)
        elif kind == 7:        # a persistent client goes away, another client gets its slot, the first one comes back
            g.steps = []
            g.connect("n1", "c1", clean=False); g.connect("n2", "c2")
            g.subscribe("n1", "a/+", r.choice([0, 1])); g.idle(20)
            if r.random() < 0.5:
                g.push("n1", {"t": "disconnect", "id": 0, "msg": NOMSG, "fs": []}); g.idle(10)
            g.steps.append({"op": "close", "n": "n1"}); g.idle(10)
            g.connect("n3", "c3"); g.subscribe("n3", r.choice(["a/b", "#"]), r.choice([0, 1])); g.idle(20)
            g.publish("n2", "a/b", r.choice([0, 1])); g.idle(20)
            g.connect("n4", "c1", clean=r.random() < 0.3); g.idle(20)
            for _ in range(r.randint(1, 3)):
                g.publish("n2", "a/b", r.choice([0, 1]))
            g.idle(30)
            for n in ("n3", "n4"):
                g.steps.append({"op": "drain", "n": n}); g.steps.append({"op": "react", "n": n, "max": 100})
            g.publish("n3", "a/c", 1); g.idle(30)
            for n in ("n3", "n4"):
                g.steps.append({"op": "drain", "n": n}); g.steps.append({"op": "react", "n": n, "max": 100})
        elif kind == 8:        # a connection with a will ends, then a will-less connection of the same client id ends
            g.steps = []
            wq = r.choice([0, 1])
            g.connect("n1", "c1", will={"m": 901, "topic": ch("a/b"), "q": wq, "retain": r.random() < 0.3}); g.connect("n2", "c2")
            g.subscribe("n2", r.choice(["a/b", "a/+"]), r.choice([0, 1])); g.idle(20)
            if r.random() < 0.3:
                g.push("n1", {"t": "disconnect", "id": 0, "msg": NOMSG, "fs": []}); g.idle(10)
            g.steps.append({"op": "close", "n": "n1"}); g.idle(10); g.steps.append({"op": "will", "n": "n1"}); g.idle(30)
            g.steps.append({"op": "drain", "n": "n2"}); g.steps.append({"op": "react", "n": "n2", "max": 100})
            g.connect("n3", "c1"); g.idle(10)
            if r.random() < 0.5:
                g.publish("n3", "a/b", 0); g.idle(10)
            g.steps.append({"op": "close", "n": "n3"}); g.idle(10); g.steps.append({"op": "will", "n": "n3"}); g.idle(30)
        elif kind == 9:        # two requests of one connection parked on the same log (plain and shared), then it goes away
            qa, qb = r.choice([0, 1]), r.choice([0, 1])
            subs = [("a/b", qa), ("$share/g/a/b", qb)]
            r.shuffle(subs)
            for f, q in subs:
                g.subscribe("n1", f, q)
            if r.random() < 0.5:
                g.connect("n3", "c3"); g.subscribe("n3", r.choice(["a/b", "$share/g/a/b", "a/+"]), r.choice([0, 1]))
            g.idle(40)
            if r.random() < 0.5:
                g.push("n1", {"t": "disconnect", "id": 0, "msg": NOMSG, "fs": []}); g.idle(10)
            g.steps.append({"op": "close", "n": "n1"}); g.idle(20)
            for _ in range(r.randint(1, 3)):
                g.publish("n2", "a/b", r.choice([0, 1]))
            g.idle(30)
            g.connect("n4", "c1"); g.subscribe("n4", "a/b", r.choice([0, 1])); g.idle(20)
            g.publish("n2", "a/b", 0)
        else:                  # re-subscription and resume
            g.steps = []
            g.connect("n1", "c1", clean=False); g.connect("n2", "c2")
            if r.random() < 0.5:           # the subscription starts with a retained replay that stays unacknowledged
                g.publish("n2", r.choice(["a/b", "a/c"]), 0, retain=True); g.idle(20)
            g.subscribe("n1", "a/+", 1); g.idle(20)
            for _ in range(r.randint(2, 5)):
                g.publish("n2", "a/b", r.choice([0, 1]))
            g.idle(30); g.steps.append({"op": "drain", "n": "n1"})
            g.steps.append({"op": "react", "n": "n1", "max": r.choice([0, 1, 2])})
            g.steps.append({"op": "close", "n": "n1"}); g.idle(10)
            for _ in range(r.randint(1, 3)):
                g.publish("n2", "a/b", 1)
            g.idle(20)
            g.connect("n3", "c1", clean=r.random() < 0.2)
            if r.random() < 0.5:
                g.subscribe("n3", "a/+", r.choice([0, 1]))
        # everybody drains and acknowledges until the broker is idle
        for _ in range(8):
            g.idle(60)
            for n in ("n1", "n2", "n3", "n4"):
                g.steps.append({"op": "drain", "n": n})
                g.steps.append({"op": "react", "n": n, "max": r.choice([1, 3, 100])})
        g.idle(100)
        out.append({"cfg": g.cfg, "steps": g.steps})
    return out
