"""C20: messages and notifications cross protocol versions. The packet values the routing core can hand to a link are the
broker-to-client subset of Wire!Packets5 (publishes with every subset of publish properties, acks / releases with reason codes
and properties, subacks, unsubacks, ping responses, disconnects); each is written with the broker's 3.1.1 and 5 protocol and
decoded by the matching client codec: no error, no panic, same topic / payload / ids, properties dropped towards 3.1.1 and
preserved towards 5.  End to end, a real router thread and real remote() connection tasks carry a QoS 1 publish between every
pair of listener versions, a v5 publisher using every subset of the publish properties."""
import json, os
import vlib
from checks import codec_common as cc
from checks import alias_common

TO_CLIENT = ("publish", "puback", "pubrec", "pubrel", "pubcomp", "suback", "unsuback", "pingresp", "disconnect", "connack")


def run(ctx):
    bindir = vlib.build_harness(["codecs", "crossver"])
    alias_common.alias_stage(ctx, "C20")
    v4, v5, res = cc.wire_vectors(ctx)
    vecs = [r for r in v5 if r["p"]["t"] in TO_CLIENT and not (r["p"]["t"] == "connack" and r["p"].get("code", 0) != 0)]
    vp, rp = ctx.path("cross.ndjson"), ctx.path("cross_res.ndjson")
    with open(vp, "w") as f:
        for r in vecs:
            f.write(json.dumps({"v": 5, "p": r["p"]}) + "\n")
    vlib.last_json(vlib.run_bin(os.path.join(bindir, "codecs"), ["cross", vp, rp], timeout=1800))
    results = [json.loads(l) for l in open(rp)]
    if len(results) != len(vecs):
        raise vlib.ToolError("codecs cross returned %d results for %d vectors" % (len(results), len(vecs)))
    failed = 0
    bytype = {}
    for r, vec in zip(results, vecs):
        bytype[vec["p"]["t"]] = bytype.get(vec["p"]["t"], 0) + 1
        if not r["ok"]:
            failed += 1
            if failed <= 6:
                ctx.violation("a packet of the routing core written to a link: %s: %s" % (json.dumps(vec["p"])[:220], "; ".join(r["fails"])[:400]), {"p": vec["p"], "fails": r["fails"]})
    # end to end
    rounds = 1 if ctx.quick else 5
    e2e = e2e_bad = 0
    sample = None
    for k in range(rounds):
        op = ctx.path("crossver%d.ndjson" % k)
        vlib.last_json(vlib.run_bin(os.path.join(bindir, "crossver"), [op], timeout=600))
        for l in open(op):
            r = json.loads(l)
            e2e += 1
            if r.get("pub") == 5 and r.get("sub") == 4 and r.get("mask") == 31:
                sample = r
            if not r["ok"]:
                e2e_bad += 1
                if e2e_bad <= 4:
                    ctx.violation("MQTT %s publisher -> MQTT %s subscriber (publish properties mask %s): %s" % (r.get("pub"), r.get("sub"), r.get("mask"), "; ".join(r["problems"])[:400]), r)
    vlib.write_evidence(ctx, "exploration", {
        "evaluations": len(vecs) * 2 + e2e, "distinct_nontrivial": len(vecs) * 2 + e2e // rounds,
        "rule": "every broker-to-client value of Wire!Packets5 (%s) x target protocol {3.1.1, 5}: write with the broker protocol, read with the client codec, compare fields; "
                "plus real router + two remote() tasks for the 4 version pairs x 32 property subsets (v5 publisher) / 1 (v4 publisher), a v5 subscriber plain / with a subscription identifier / with Topic Alias Maximum, repeated %d time(s); distinct = distinct (packet value, "
                "target) and distinct (pair, property subset)" % (", ".join("%s: %d" % kv for kv in sorted(bytype.items())), rounds),
        "samples": [{"vector": vecs[len(vecs) // 2]["p"]}, {"end_to_end": sample}],
        "exhaustive": True, "failed_vectors": failed, "failed_end_to_end": e2e_bad,
    }, ["CONNACK with a failure code towards a 3.1.1 link is not in the value space: a v5-only code has no 3.1.1 counterpart and the property speaks of notifications of the routing core",
        "end-to-end runs use one QoS 1 publish per run; ordering and pacing across versions are the router properties C01/C03, which are protocol-agnostic above the codec",
        "message expiry is not modelled; topic aliases are covered by the Alias.tla stage (coverage.topic_aliases)"])


def replay(ctx, path):
    print(json.dumps(json.load(open(path)), indent=1)[:3000])
