"""C12: topic matching and validation. MqttTopic.tla is the functional specification; TLC checks its
algebraic laws on every (topic, filter) pair up to the length bound and emits the expected answers,
which the harness compares with the three implementations."""
import json, os
import vlib


def run(ctx):
    bindir = vlib.build_harness(["topics"])
    maxlen = 3 if ctx.quick else 4
    nrand = 2000 if ctx.quick else 20000
    cfg = vlib.make_cfg(ctx, "MC_MqttTopic", {"MaxLen = 3": "MaxLen = %d" % maxlen, "NRand = 2000": "NRand = %d" % nrand})
    short, long_ = ctx.path("short.ndjson"), ctx.path("long.ndjson")
    res = vlib.run_tlc(ctx, "MC_MqttTopic", cfg=cfg, env={"OUT": short, "OUT2": long_},
                       timeout=3000, heap="16g", workers=8 if ctx.quick else 14)
    if not res.ok:
        # the specification contradicts itself: a tool-level problem, not a verdict on the code
        raise vlib.ToolError("MqttTopic.tla law violated: %s" % res.invariant_violated)
    out = vlib.run_bin(os.path.join(bindir, "topics"), [short, long_, ctx.path("fail.json")], timeout=3000)
    summary = vlib.last_json(out)
    for v in summary["violations"][:10]:
        ctx.violation("%s: %s(%r, %r) = %s, MqttTopic.tla says %s" % (
            v["copy"], v["what"], v["topic"], v["filter"], json.dumps(v["got"]), json.dumps(v["want"])), v)
    vlib.write_evidence(ctx, "exploration", {
        "evaluations": summary["evaluations"],
        "distinct_nontrivial": summary["distinct_nontrivial"],
        "rule": "every string up to length %d over {a,b,/,+,#,$,U} (U = a multi-byte character, substituted by "
                "2-, 3- and 4-byte characters) as topic and as filter, all pairs, plus %d seeded random pairs of up "
                "to 6 levels; a pair is counted as non-trivial when it is a (valid topic, valid filter) pair that "
                "matches, has a wildcard filter or a $-topic; distinct by the substituted (topic, filter) strings"
                % (maxlen, nrand),
        "samples": summary["samples"],
        "exhaustive": True,
        "strings": summary["strings"],
        "states": res.distinct,
        "transitions": res.generated,
        "spec_laws_checked": ["DeclAgrees", "HashAll", "Literal", "DollarNone", "PlusGeneralises", "SelfMatch",
                              "WildcardsAreFilterOnly"],
        "copies": ["rumqttc::matches/valid_topic/valid_filter/has_wildcards", "rumqttc::v5::mqttbytes::*",
                   "rumqttd::protocol::*"],
    }, ["MqttTopic.tla is the reference reading of the MQTT rules (two independent definitions checked equal by TLC)",
        "beyond the length bound only seeded random pairs are examined"])


def replay(ctx, path):
    v = json.load(open(path))
    print(json.dumps(v, indent=1))
    run(ctx)
