"""C04: codecs round-trip every packet and interoperate. Wire.tla defines the packet value spaces (boundary-complete) and, for
MQTT 3.1.1, the byte layout; TLC enumerates every value; the harness builds each value in the client and the broker codec of
that version and checks encode/decode equality, consumed == produced, size() == bytes written, byte-identity of the two
encoders, cross-decoding in both directions, and (3.1.1) equality of the bytes with Wire!Bytes4 / (5) of the header byte."""
import json, os
import vlib
from checks import codec_common as cc


def run(ctx):
    bindir = vlib.build_harness(["codecs"])
    v4, v5, res = cc.wire_vectors(ctx)
    total = failed = 0
    samples = []
    for v, vecs in ((4, v4), (5, v5)):
        vp, rp = ctx.path("vec%d.ndjson" % v), ctx.path("res%d.ndjson" % v)
        with open(vp, "w") as f:
            for r in vecs:
                f.write(json.dumps({"v": v, "p": r["p"]}) + "\n")
        summ = vlib.last_json(vlib.run_bin(os.path.join(bindir, "codecs"), ["roundtrip", vp, rp], timeout=1800))
        results = [json.loads(l) for l in open(rp)]
        if len(results) != len(vecs):
            raise vlib.ToolError("codecs roundtrip returned %d results for %d vectors" % (len(results), len(vecs)))
        for r, vec in zip(results, vecs):
            total += 1
            fails = list(r["fails"])
            if r["ok"]:
                if v == 4 and cc.canon_rle(r["rle"]) != cc.canon_rle(vec["rle"]):
                    fails.append("bytes differ from Wire!Bytes4: got %s, spec %s" % (json.dumps(cc.canon_rle(r["rle"]))[:160], json.dumps(cc.canon_rle(vec["rle"]))[:160]))
                if r["rle"] and r["rle"][0][0] != vec["h"]:
                    fails.append("first header byte %d, Wire.tla says %d" % (r["rle"][0][0], vec["h"]))
            if fails:
                failed += 1
                if failed <= 8:
                    ctx.violation("MQTT %s codec: %s: %s" % ("3.1.1" if v == 4 else "5", json.dumps(vec["p"])[:220], "; ".join(fails)[:400]),
                                  {"v": v, "p": vec["p"], "fails": fails})
            elif len(samples) < 4 and vec["p"]["t"] in ("publish", "connect") and r["len"] > 100:
                samples.append({"v": v, "p": vec["p"], "encoded_len": r["len"], "hex_prefix": r.get("hex_prefix")})
    vlib.write_evidence(ctx, "exploration", {
        "evaluations": total * 9, "distinct_nontrivial": total,
        "rule": "every value of Wire!Packets4 and Wire!Packets5 (all packet types; dup/QoS/retain combinations; packet ids 1,255,256,65535; "
                "string lengths 0,1,127,128,65535; payloads that put the remaining length at 127/128, 16383/16384, 2097151/2097152; 1-3 "
                "filters / return codes; every subset of the v5 publish, ack and disconnect properties, each connect/connack property alone and all "
                "together; failure reason codes; subscription options); 9 checks per vector; every vector is a distinct packet value",
        "samples": samples or [{"note": "no large sample"}],
        "exhaustive": True, "vectors_v4": len(v4), "vectors_v5": len(v5), "failed": failed,
    }, ["Wire.tla is the reference for the 3.1.1 byte layout and the v5 header byte; v5 property bytes are only checked by round trip and by byte-identity of the two independent encoders",
        "one filler character per string: the codecs do not interpret string contents",
        "logins with an empty user name and subscribe/suback/unsuback with empty lists are outside the value space (not well-formed)"])


def replay(ctx, path):
    print(json.dumps(json.load(open(path)), indent=1)[:3000])
