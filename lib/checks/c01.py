"""C01: exact in-order delivery to matching subscriptions. See router_common.py and DESIGN.md section 6."""
from checks import router_common as rc
from checks import alias_common

INV = ["NoPanic", "SlabsAligned", "ReadyqSound", "NoLostRequest", "DeliveredExactly", "NoSpurious", "QuiescentComplete"]


def run(ctx):
    q = ctx.quick
    alias_common.alias_stage(ctx, "C01")
    mc = [("c01_a", dict(MaxPub=2 if q else 3, MaxSubOps=2, SubQoS="{1}", PubQoS="{0, 1}"), None)]
    if not q:
        mc.append(("c01_b", dict(MaxPub=3, MaxSubOps=2, SubQoS="{0, 2}", PubQoS="{2}", Subscribers='{"n1", "n2"}'), None))
    gen = [("c01_g", dict(Nets='{"n1", "n2", "n3"}', SubQoS="{0, 1, 2}", PubQoS="{0, 1, 2}", Subscribers='{"n1", "n3"}', MaxPub=8, MaxSubOps=5,
                          MaxCloses=2, EnPing="TRUE", EnDisconnect="TRUE"), dict(Topics="MCTopics3", Filters="MCFilters3", MatchRel="MCMatch3"),
            600 if q else 6000, 45)]
    rc.liveness(ctx, "c01_live", dict(MaxPub=1 if q else 2, MaxSubOps=2, SubQoS="{1}", PubQoS="{0, 1}"))
    rc.run_router_property(ctx, "C01", mc, gen, INV)


def replay(ctx, path):
    import json
    print(json.dumps(json.load(open(path)), indent=1)[:4000])
