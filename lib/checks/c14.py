"""C14: client isolation. Invariants on the well-behaved pair plus the cross-generation step property; the known finding
(a late Event::Disconnect removes the connection that reuses its id) is excluded from the step property and reported as
KNOWN-FINDING while its witness still reproduces."""
import json, os
import vlib
from checks import router_common as rc

INV = ["NoPanic", "SlabsAligned", "DeliveredExactly", "NoSpurious", "AcksInOrder", "QuiescentComplete", "WindowBound"]
NM = {"m": 0, "topic": "none", "q": 0, "retain": False, "empty": False}


def witness():
    """c1 connects (n1), sends DISCONNECT and its link ends; c2 (n2) connects and gets the freed slot; n1's late Event::Disconnect arrives."""
    return {"cfg": {"max_conn": 2, "out_batch": 2}, "steps": [
        {"op": "connect", "n": "n1", "cid": "c1", "clean": True, "will": {"m": 0, "topic": "none", "q": 0, "retain": False}}, {"op": "event"}, {"op": "consume"}, {"op": "finish", "n": "n1"},
        {"op": "push", "n": "n1", "pk": {"t": "disconnect", "id": 0, "msg": NM, "fs": []}}, {"op": "event"},
        {"op": "connect", "n": "n2", "cid": "c2", "clean": True, "will": {"m": 0, "topic": "none", "q": 0, "retain": False}}, {"op": "event"}, {"op": "consume"}, {"op": "finish", "n": "n2"},
        {"op": "close", "n": "n1"}, {"op": "event"},
        {"op": "push", "n": "n2", "pk": {"t": "pingreq", "id": 0, "msg": NM, "fs": []}}, {"op": "event"}, {"op": "consume"}, {"op": "drain", "n": "n2"}]}


def run(ctx):
    q = ctx.quick
    bin_small = vlib.build_harness(["router_run"], small=True)
    # known finding: does the witness still reproduce on the real router?
    for kf in vlib.known_findings("C14"):
        ctx2_inv = ["NoPanic"]
        before = len(ctx.violations)
        sp, tp = ctx.path("kf.ndjson"), ctx.path("kf_trace.ndjson")
        open(sp, "w").write(json.dumps(witness()) + "\n")
        vlib.run_bin(os.path.join(bin_small, "router_run"), [sp, tp])
        last = json.loads(open(tp).read().splitlines()[-1])
        live = [c for c in last["proj"]["conns"] if c["live"]]
        if not live:      # c2's connection was removed by c1's late Disconnect
            ctx.known_finding(kf["what"])
    mc = [("c14_a", dict(Nets='{"n1", "n2", "n3"}', MaxPub=1, MaxSubOps=2, MaxCloses=1, SubQoS="{1}", PubQoS="{1}", Subscribers='{"n1"}', Publishers='{"n2"}',
                         Adversaries='{"n3"}', EnUnsub="FALSE", EnDisconnect="TRUE", CIDs='{"c1", "c2", "c3"}', MaxConn=3), dict(NetCid="MCNetCidOwn", Topics="MCTopics1", Filters="MCFilters1"))]
    if not q:
        mc.append(("c14_b", dict(Nets='{"n1", "n2", "n3"}', MaxPub=2, MaxSubOps=3, MaxCloses=2, SubQoS="{1}", PubQoS="{0, 1}", Subscribers='{"n1", "n3"}',
                                 Adversaries='{"n3"}', EnStale="TRUE", EnDisconnect="TRUE"), dict(Topics="MCTopics1", Filters="MCFilters1")))
    gen = [("c14_g", dict(Nets='{"n1", "n2", "n3", "n4"}', SubQoS="{0, 1, 2}", PubQoS="{0, 1, 2}", Subscribers='{"n1", "n3", "n4"}', Publishers='{"n2"}',
                          Adversaries='{"n3", "n4"}', MaxPub=6, MaxSubOps=8, MaxCloses=3, EnDisconnect="TRUE", EnStale="TRUE"),
            dict(Topics="MCTopics3", Filters="MCFilters3", MatchRel="MCMatch3"), 800 if q else 8000, 60)]
    rc.run_router_property(ctx, "C14", mc, gen, INV, big=False, act=["NoCrossGenerationButDisconnect", "AckClosesOnlyThat"],
                           trace_act=["NoCrossGenerationButDisconnectT", "AckClosesOnlyThatT"])


def replay(ctx, path):
    print(json.dumps(json.load(open(path)), indent=1)[:4000])
