"""Topic aliases end to end (Alias.tla), a stage of C01 and C20 ("with the original / the same topic").
1. TLC checks Alias.tla (the alias code of both clients and of the broker, transcribed) exhaustively for every Topic Alias
   Maximum 0..2 of the subscriber: OutOriginal, InOriginal, NoFlags, TablesAgree.
2. TLC simulates the same model with the stimuli recorded (MC_AliasGen); the scripts are executed by the `aliases` harness: the
   real routing core between the real rumqttc v5 state machines of a publishing and of a subscribing client.
3. Every recorded step is validated by TLC against AliasTrace.tla: strictly first (the forwards must be exactly the model's),
   and after a rejection with Strict = FALSE (any choice of aliases by the broker is accepted, only the MQTT 5 alias rules and
   the property clauses are evaluated): accepted -> DRIFT, otherwise VIOLATION."""
import json, os, random, re
import vlib

INV = ["OutOriginal", "InOriginal", "NoFlags", "TablesAgree"]
CONSTS = ("CONSTANTS\n  Topics <- MCTopics\n  Filters <- MCFilters\n  MatchRel <- MCMatch\n  AMax = %d\n  BMax = 4096\n"
          "  PubAliases <- MCPubAliases\n  AFix = {\"alias_per_topic\"}\n")
TOPICS, FILTERS, ALIASES = ["a/b", "a/c"], ["a/b", "a/+", "#"], [-1, -1, -1, 0, 1, 1, 2, 2, 4096, 4097]


def random_scripts(seed, amax, n, length):
    """stimuli beyond what the model's simulation produces (unsubscribe of a filter that is not subscribed, publishes while the
    publisher is down); sub / unsub / reconnect come after a sync, as the model demands"""
    rnd = random.Random(seed * 7919 + amax)
    out = []
    for _ in range(n):
        steps, dirty = [], False
        for _ in range(length):
            r = rnd.random()
            if r < 0.55:
                a = rnd.choice(ALIASES)
                steps.append({"op": "pub", "topic": rnd.choice(TOPICS), "alias": a, "full": True if a < 0 else rnd.random() < 0.6})
                dirty = True
            elif r < 0.75:
                steps.append({"op": "sync"}); dirty = False
            else:
                if dirty:
                    steps.append({"op": "sync"}); dirty = False
                op = rnd.choice(["sub", "sub", "unsub", "reconnect"])
                steps.append({"op": op, "f": rnd.choice(FILTERS)} if op != "reconnect" else {"op": op})
        steps.append({"op": "sync"})
        out.append({"amax": amax, "steps": steps})
    return out


def validate(ctx, amax, tp, strict, name):
    cfg = ctx.path("%s.cfg" % name)
    open(cfg, "w").write(CONSTS.replace("PubAliases <- MCPubAliases", "PubAliases = {}") % amax + "  Strict = %s\n" % ("TRUE" if strict else "FALSE") +
                         "SPECIFICATION TraceSpec\nINVARIANTS %s\nCONSTRAINT Progress\nPOSTCONDITION TraceAccepted\nCHECK_DEADLOCK FALSE\n" % " ".join(INV))
    return vlib.run_tlc_raw(ctx, "MC_AliasTrace", cfg=cfg, workers=1, timeout=1800, env={"TRACE": tp}, dfs=True, name=name, heap="4g")


def failing_script(r, lines):
    m = re.search(r'"TRACE-REJECTED at line",\s*(\d+)', r.out)
    m2 = re.findall(r"/\\ l = (\d+)", r.out)
    line = (int(m2[-1]) - 1) if (r.invariant_violated and m2) else (int(m.group(1)) if m else 1)
    line = min(max(line, 1), len(lines))
    start = max(j for j in range(line) if '"ev":"reset"' in lines[j])
    return line, [json.loads(x) for x in lines[start:line]]


def alias_stage(ctx, pid):
    bindir = vlib.build_harness(["aliases"])
    exe = os.path.join(bindir, "aliases")
    states = transitions = scripts = events = 0
    runs, sample = [], None
    for amax in (0, 1, 2):
        maxpub = (2 if amax == 2 else 3) if ctx.quick else 5
        cfg = ctx.path("MC_Alias_%d.cfg" % amax)
        open(cfg, "w").write(CONSTS % amax + "  MaxPub = %d\nSPECIFICATION Spec\nCONSTRAINT PubBound\nINVARIANTS %s\nCHECK_DEADLOCK FALSE\n" % (maxpub, " ".join(INV)))
        res = vlib.run_tlc(ctx, "MC_Alias", cfg=cfg, workers=4 if ctx.quick else 12, timeout=3000, name="alias_mc_%d" % amax)
        states += res.distinct; transitions += res.generated
        runs.append({"AMax": amax, "MaxPub": maxpub, "distinct": res.distinct, "ok": res.ok})
        if not res.ok:
            ctx.violation("Alias.tla (transcription of the alias code as it is now) violates %s for Topic Alias Maximum %d" % (res.invariant_violated, amax),
                          {"tlc": vlib.tlc_counterexample(res)[:8000]})
            continue
        gcfg = ctx.path("MC_AliasGen_%d.cfg" % amax)
        open(gcfg, "w").write(CONSTS % amax + "  MaxPub = 1000\n  EmitAt = 26\nSPECIFICATION GenSpec\nINVARIANTS EmitScript\nCHECK_DEADLOCK FALSE\n")
        gen = vlib.tlc_generate(ctx, "MC_AliasGen", gcfg, "SCRIPT", 150 if ctx.quick else 1500, 27, workers=1, name="aliasgen_%d" % amax, hard_timeout=60 if ctx.quick else 240)
        uniq = sorted({json.dumps([{k: v for k, v in st.items() if not (k == "f" and v == "none") and not (k == "topic" and v == "none")} for st in s], sort_keys=True) for s in gen})
        all_scripts = [{"amax": amax, "steps": json.loads(u) + [{"op": "sync"}]} for u in uniq]
        all_scripts += random_scripts(ctx.seed, amax, 60 if ctx.quick else 600, 30)
        sample = sample or all_scripts[len(all_scripts) // 3]
        sp, tp = ctx.path("alias_%d.ndjson" % amax), ctx.path("alias_%d.trace" % amax)
        open(sp, "w").write("\n".join(json.dumps(s) for s in all_scripts) + "\n")
        summ = vlib.last_json(vlib.run_bin(exe, [sp, tp], timeout=900))
        scripts += summ["scripts"]; events += summ["events"]
        lines = open(tp).read().splitlines()
        if summ["panics"]:
            for i, l in enumerate(lines):
                if '"panic"' in l:
                    start = max(j for j in range(i + 1) if '"ev":"reset"' in lines[j])
                    ctx.violation("topic aliases (Topic Alias Maximum %d): the code panicked at %s: %s" % (amax, json.loads(l).get("at"), json.loads(l).get("panic")),
                                  {"amax": amax, "trace": [json.loads(x) for x in lines[start:i + 1]]})
                    break
            continue
        r = validate(ctx, amax, tp, True, "aliastrace_%d" % amax)
        bad = r.invariant_violated or "TRACE-REJECTED" in r.out or "Postcondition" in r.out
        if not bad and not r.ok:
            raise vlib.ToolError("alias trace validation failed to run: %s" % r.error)
        if r.invariant_violated:
            line, trace = failing_script(r, lines)
            ctx.violation("topic aliases (subscriber's Topic Alias Maximum %d): %s violated by the recorded execution of the real broker and clients at %s" % (amax, r.invariant_violated[0], lines[line - 1][:260]),
                          {"amax": amax, "invariant": r.invariant_violated, "trace": trace})
        elif bad:
            line, trace = failing_script(r, lines)
            r2 = validate(ctx, amax, tp, False, "aliastrace_loose_%d" % amax)
            bad2 = r2.invariant_violated or "TRACE-REJECTED" in r2.out or "Postcondition" in r2.out
            if not bad2 and not r2.ok:
                raise vlib.ToolError("alias trace validation (second stage) failed to run: %s" % r2.error)
            if bad2:
                line2, trace2 = failing_script(r2, lines)
                what = ("%s violated" % r2.invariant_violated[0]) if r2.invariant_violated else "not explained by the MQTT 5 alias rules / the property clauses"
                ctx.violation("topic aliases (subscriber's Topic Alias Maximum %d): recorded execution of the real broker and clients: %s at %s (it first leaves Alias.tla at %s)" % (amax, what, lines[line2 - 1][:260], lines[line - 1][:160]),
                              {"amax": amax, "invariant": r2.invariant_violated, "trace": trace2})
            else:
                msg = "topic aliases (Topic Alias Maximum %d): the broker's choice of aliases differs from Alias.tla at %s; the MQTT 5 alias rules and the property clauses hold on every recorded step" % (amax, lines[line - 1][:200])
                print("DRIFT property=%s %s" % (pid, msg))
                ctx.drift.append({"note": msg, "trace": trace[-12:]})
    cov = {"topic_aliases": {"spec": "Alias.tla / AliasTrace.tla", "invariants": INV, "tlc_runs": runs, "states": states, "transitions": transitions,
                             "scripts_executed_on_real_code": scripts, "recorded_steps_validated": events, "sample_script": sample}}
    ctx.extra_coverage = dict(getattr(ctx, "extra_coverage", None) or {}, **cov)
    ctx.extra_assumptions = list(getattr(ctx, "extra_assumptions", None) or []) + [
        "topic aliases: one publisher, one subscriber, QoS 0, two topics and three filters (literal, +, #), batches below max_outgoing_packet_count; the routing core is the real one but Alias.tla abstracts its scheduling to 'one batch per filter per turn'",
        "the subscribing rumqttc user is shown the PUBLISH as it was on the wire (empty topic when an established alias is used): modelled as it is; no listed property speaks about it"]
    return cov
