"""C15: retained messages. See router_common.py; ghost rules in RouterSys.tla (RetainedRules)."""
from checks import router_common as rc

INV = ["NoPanic", "RetainedRules", "DeliveredExactly", "NoSpurious", "NoLostRequest", "QuiescentComplete", "WindowBound"]


def run(ctx):
    q = ctx.quick
    mc = [("c15_a", dict(MaxPub=2, MaxSubOps=2, SubQoS="{0, 1}", PubQoS="{0}", PubRetain="{TRUE, FALSE}", PubEmpty="{TRUE, FALSE}", EnUnsub="FALSE" if q else "TRUE"), None)]
    if not q:
        mc.append(("c15_b", dict(MaxPub=3, MaxSubOps=2, SubQoS="{2}", PubQoS="{1}", PubRetain="{TRUE}", PubEmpty="{TRUE, FALSE}", Subscribers='{"n1", "n2"}'), None))
    gen = [("c15_g", dict(Nets='{"n1", "n2", "n3"}', SubQoS="{0, 1, 2}", PubQoS="{0, 1, 2}", PubRetain="{TRUE, FALSE}", PubEmpty="{TRUE, FALSE}",
                          Subscribers='{"n1", "n3"}', MaxPub=8, MaxSubOps=6, MaxCloses=1, EnDisconnect="TRUE"),
            dict(Topics="MCTopics3", Filters="MCFilters3", MatchRel="MCMatch3"), 700 if q else 7000, 50)]
    rc.run_router_property(ctx, "C15", mc, gen, INV, big=False)


def replay(ctx, path):
    import json
    print(json.dumps(json.load(open(path)), indent=1)[:4000])
