"""C08: persistent sessions resume without losing subscriptions or messages. See router_common.py."""
from checks import router_common as rc

INV = ["NoPanic", "SlabsAligned", "SubMapConsistent", "NoLostRequest", "DeliveredExactly", "NoSpurious", "QuiescentComplete",
       "SessionPresentRule", "CleanStartsEmpty", "WindowBound", "UniqueInflightIds"]


def run(ctx):
    q = ctx.quick
    pers = dict(NetClean="MCPersistent1")
    mc = [("c08_a", dict(Nets='{"n1", "n2", "n3"}', MaxPub=2, MaxSubOps=1 if q else 2, MaxCloses=1, SubQoS="{1}", PubQoS="{0}", Subscribers='{"n1", "n3"}'),
           dict(pers, Topics="MCTopics1", Filters="MCFilters1"))]
    if not q:
        mc.append(("c08_b", dict(Nets='{"n1", "n2", "n3"}', MaxPub=3, MaxSubOps=2, MaxCloses=2, SubQoS="{1, 2}", PubQoS="{0, 1}", Subscribers='{"n1", "n3"}',
                                 EnDisconnect="TRUE"), dict(pers)))
        mc.append(("c08_c", dict(Nets='{"n1", "n2", "n3"}', MaxPub=2, MaxSubOps=2, MaxCloses=2, SubQoS="{1}", PubQoS="{0}", Subscribers='{"n1", "n3"}'),
                   dict(NetClean="MCMixed1", Topics="MCTopics1", Filters="MCFilters1")))
    gen = [("c08_g", dict(Nets='{"n1", "n2", "n3", "n4"}', SubQoS="{0, 1, 2}", PubQoS="{0, 1, 2}", Subscribers='{"n1", "n3", "n4"}', MaxPub=8, MaxSubOps=5,
                          MaxCloses=3, EnPing="FALSE", EnDisconnect="TRUE"), dict(pers, Topics="MCTopics3", Filters="MCFilters3", MatchRel="MCMatch3"),
            600 if q else 6000, 55),
           ("c08_h", dict(Nets='{"n1", "n2", "n3", "n4"}', SubQoS="{1}", PubQoS="{0, 1}", Subscribers='{"n1", "n3", "n4"}', MaxPub=8, MaxSubOps=4,
                          MaxCloses=3, EnDisconnect="TRUE"), dict(NetClean="MCMixed1"), 300 if q else 3000, 55)]
    rc.run_router_property(ctx, "C08", mc, gen, INV, big=False)


def replay(ctx, path):
    import json
    print(json.dumps(json.load(open(path)), indent=1)[:4000])
