"""C19: broker admission. (1) Admission.tla: the decision table of a new network connection (first packet, protocol level,
keep-alive, client id class, clean flag, auth configuration x login, router occupancy); TLC checks that the table implies what
the property demands and enumerates all rows; every row is executed through the real remote() (server/broker.rs) with a real
router thread over an in-memory stream and the observed outcome (successful CONNACK / error CONNACK / nothing; does a later
PUBLISH reach the routing core) is compared. (2) RouterSys.tla: one live connection per client id, live connections within
max_connections, over connect / disconnect / takeover histories with max_connections 1 and 2 (model checking + validated traces)."""
import json, os
import vlib
from checks import router_common as rc


def run(ctx):
    bindir = vlib.build_harness(["admission", "router_run"])
    rows_path, res_path = ctx.path("rows.ndjson"), ctx.path("rows_res.ndjson")
    res = vlib.run_tlc(ctx, "MC_Admission", cfg="MC_Admission", workers=1, env={"OUT": rows_path}, timeout=600)
    if not res.ok:
        raise vlib.ToolError("Admission.tla: the table does not imply the demanded property")
    rows = open(rows_path).read().splitlines()
    if ctx.quick:
        # every row whose first packet arrives, plus a sample of the rows that wait for the connect timeout
        rows = [r for i, r in enumerate(rows) if '"first":"nothing"' not in r or i % 7 == ctx.seed % 7]
        open(rows_path, "w").write("\n".join(rows) + "\n")
    summ = vlib.last_json(vlib.run_bin(os.path.join(bindir, "admission"), [rows_path, res_path], timeout=1800))
    samples = []
    for r in summ["first_failed"][:10]:
        ctx.violation("admission: a connection with %s was %s (later publish reached the router: %s); Admission.tla says %s"
                      % (json.dumps(r["row"]), r["observed"], r["reached_router"], r["want"]), r)
    for l in open(res_path):
        r = json.loads(l)
        if r["want"] != "silent" and len(samples) < 3:
            samples.append(r)
    # (2) router invariants on connect/takeover histories
    inv = ["NoPanic", "SlabsAligned", "SubMapConsistent"]
    bin_small = vlib.build_harness(["router_run"], small=True)
    states = transitions = 0
    runs = []
    for name, c in (("c19_one", dict(Nets='{"n1", "n2", "n3"}', MaxConn=1, MaxPub=0, MaxSubOps=1, MaxCloses=2, Publishers="{}", EnDisconnect="TRUE", EnUnsub="FALSE")),
                    ("c19_two", dict(Nets='{"n1", "n2", "n3"}', MaxConn=2, MaxPub=0, MaxSubOps=1, MaxCloses=2, Publishers="{}", EnDisconnect="TRUE", EnUnsub="FALSE"))):
        r = rc.model_check(ctx, name, c, inv, dict(Topics="MCTopics1", Filters="MCFilters1", NetClean="MCMixed1"))
        states += r.distinct; transitions += r.generated
        runs.append({"config": name, "distinct": r.distinct, "ok": r.ok})
        if not r.ok:
            ctx.violation("RouterSys.tla violates %s in %s" % (r.invariant_violated, name), {"tlc": vlib.tlc_counterexample(r)[:20000]})
    scripts = rc.gen_scripts(ctx, "c19_g", dict(Nets='{"n1", "n2", "n3", "n4"}', MaxConn=2, MaxPub=2, MaxSubOps=3, MaxCloses=4, Subscribers='{"n1", "n3", "n4"}',
                                                 EnDisconnect="TRUE"), 400 if ctx.quick else 4000, 45, dict(NetClean="MCMixed1"))
    t, e = rc.run_and_validate(ctx, "C19", bin_small, scripts, "c19_g", inv, small=True)
    vlib.write_evidence(ctx, "model_checking", {
        "states": states + res.distinct, "transitions": transitions + res.generated,
        "traces_validated_against_impl": summ["rows"] + t,
        "samples": samples or [{"note": "no non-silent row in the sample"}],
        "admission_rows_total": 8640, "admission_rows_executed": summ["rows"], "admission_rows_failed": summ["failed"],
        "exhaustive": not ctx.quick,
        "tlc_runs": runs, "router_traces": t, "router_steps": e,
    }, ["TLS client-certificate tenancy, websocket upgrade and the bridge are not exercised",
        "the scripted candidate connection waits 250 ms for a CONNACK and 120-300 ms for an effect on the monitor subscriber (real time, real router thread)",
        "Admission.tla is a decision table read from remote()/mqtt_connect()/handle_auth()/handle_new_connection(); TLC checks it against the demanded property for all 8640 rows"])


def replay(ctx, path):
    print(json.dumps(json.load(open(path)), indent=1)[:3000])
