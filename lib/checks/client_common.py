"""Shared machinery of the rumqttc client checks (C02 C07 C10 C11).

 1. TLC model-checks ClientLoop.tla (MqttState + EventLoop, adversarial broker, failure anywhere) exhaustively for
    small constants with the invariants of the property and the view that keeps exactly the ghosts they read.
 2. spec -> impl: behaviours of MC_ClientSM (simulation) are replayed call by call into the real MqttState (v4, v5)
    and every returned packet / error / queued event / inflight() / collision / clean() snapshot is compared.
 3. impl -> spec: the real EventLoop is driven over an in-memory transport (paused time) by stimulus scripts that TLC
    generates from the same model (plus seeded random scripts at limit 100); the recorded traces are validated by TLC
    against ClientLoopTrace.tla with the property's invariants evaluated in every state of the trace.
"""
import json, os, random
import vlib

FIX = '{"pubcomp_collision", "clean_collision", "rel_id_reuse", "clean_order", "clean_start_rotation", "replay_window", "pkid_wrap", "ack_failure"}'

PROPS = {
    "C02": dict(view="ViewC02", inv=["NoPanic", "NoLoss", "NoLostRelease"], act=[]),
    "C07": dict(view="ViewC07", inv=["NoPanic", "UniqueUnackedIds", "WindowBound", "CountNotAbove", "CollisionResolvable"],
                act=["IdsInRangeA", "GateRespected"]),
    "C10": dict(view="ViewC10", inv=["NoPanic"], act=["IncomingOnceInOrderA", "AnnounceIffWriteA"]),
    "C11": dict(view="ViewC11", inv=["NoPanic", "ReplayOrder"], act=["ReplayFirstA", "CleanStartDropsPendingA"]),
}
TRACE_INV = {
    "C02": ["NoPanic", "NoLoss", "NoLostRelease"],
    "C07": ["NoPanic", "IdsInRange", "UniqueUnackedIds", "WindowBound", "CountNotAbove", "CollisionResolvable"],
    "C10": ["NoPanic", "IncomingOnceInOrder", "AnnounceIffWrite"],
    "C11": ["NoPanic", "ReplayFirst", "CleanStartDropsPending", "ReplayOrder"],
}


def consts(version, n, manual, **kw):
    d = dict(Version=version, N=n, ManualAcks="TRUE" if manual else "FALSE", Fix=FIX, GateFix="TRUE", MaxMsgs=3, ChanCap=1,
             MaxFails=1, MaxBroker=2, QoSs="{1, 2}", Subs="FALSE")
    d.update(kw)
    return d


def write_cfg(ctx, name, c, body):
    p = ctx.path(name + ".cfg")
    with open(p, "w") as f:
        f.write("CONSTANTS\n")
        for k, v in c.items():
            f.write("  %s = %s\n" % (k, v))
        f.write(body)
    return p


def model_check(ctx, pid, version, c, workers=8, timeout=3000, tag=""):
    pr = PROPS[pid]
    body = "SPECIFICATION Spec\nCONSTRAINT Bound\nVIEW %s\nINVARIANTS %s\n" % (pr["view"], " ".join(pr["inv"]))
    if pr["act"]:
        body += "PROPERTIES %s\n" % " ".join(pr["act"])
    body += "CHECK_DEADLOCK FALSE\n"
    cfg = write_cfg(ctx, "MC_ClientLoop_%s_v%d%s" % (pid, version, tag), c, body)
    # a run that does not finish within the budget is reported as not exhaustive (evidence: exhaustive false), not as an error
    budget = min(timeout, 1200 if ctx.quick else 1500)
    res = vlib.run_tlc(ctx, "MC_ClientLoop", cfg=cfg, workers=workers, timeout=budget, heap="16g", coverage=False, allow_timeout=True)
    return res


def sm_replay(ctx, bindir, version, n, manual, want, depth=24, maxmsgs=8):
    """spec -> impl: simulate MC_ClientSM, replay into the real MqttState. Returns harness summary + observed file."""
    c = dict(Version=version, N=n, ManualAcks="TRUE" if manual else "FALSE", Fix=FIX, MaxMsgs=maxmsgs, MaxOps=depth + 6, EmitAt=depth)
    cfg = write_cfg(ctx, "MC_ClientSM_gen_v%d_n%d_%d" % (version, n, manual), c,
                    "SPECIFICATION Spec\nINVARIANTS EmitSim\nCHECK_DEADLOCK FALSE\n")
    behs = vlib.tlc_generate(ctx, "MC_ClientSM", cfg, "BEH", want, depth, workers=4, name="smgen_v%d_n%d_%d" % (version, n, manual))
    bp = ctx.path("sm_beh_v%d_n%d_%d.ndjson" % (version, n, manual))
    with open(bp, "w") as f:
        for b in behs:
            f.write(json.dumps(b) + "\n")
    obs = ctx.path("sm_obs_v%d_n%d_%d.ndjson" % (version, n, manual))
    out = vlib.run_bin(os.path.join(bindir, "client_sm"), [version, n, 1 if manual else 0, bp, obs], timeout=1200)
    return vlib.last_json(out), obs


def gen_scripts(ctx, version, n, want, depth=30):
    c = consts(version, n, False, MaxMsgs=6, ChanCap=3, MaxFails=3, MaxBroker=8, Subs="TRUE", EmitAt=depth)
    cfg = write_cfg(ctx, "MC_ClientLoopGen_v%d_n%d" % (version, n), c, "SPECIFICATION GenSpec\nINVARIANTS EmitScript\nCHECK_DEADLOCK FALSE\n")
    scripts = vlib.tlc_generate(ctx, "MC_ClientLoopGen", cfg, "SCRIPT", want, depth, workers=2, name="loopgen_v%d_n%d" % (version, n))
    return scripts


def random_scripts(seed, n, count, steps):
    """Seeded random stimulus scripts for large limits: bursts, in-order and out-of-order acks, failures, resume."""
    rng = random.Random(seed)
    out = []
    for _ in range(count):
        s = [{"op": "connect", "sp": False, "rm": 0}]
        msg = 0
        wire = []           # ids we believe are unacked on the wire (approximation used only to pick plausible acks)
        up = True
        for _ in range(steps):
            x = rng.random()
            if not up:
                s.append({"op": "connect", "sp": rng.random() < 0.75, "rm": 0})
                up = True
                continue
            if x < 0.35:
                msg += 1
                q = rng.choice([1, 1, 1, 2])
                s.append({"op": "user", "pk": {"t": "publish", "id": 0, "q": q, "m": msg}})
                s.append({"op": "poll"})
                wire.append(((len(wire) % n) + 1, q))
            elif x < 0.75:
                if wire and rng.random() < 0.85:
                    k = 0 if rng.random() < 0.7 else rng.randrange(len(wire))
                    i, q = wire.pop(k)
                    t = "puback" if q == 1 else rng.choice(["pubrec", "pubcomp"])
                else:
                    i, t = rng.randrange(0, n + 2), rng.choice(["puback", "pubrec", "pubcomp", "pubrel", "suback"])
                s.append({"op": "broker", "pk": {"t": t, "id": i, "q": 0, "m": 0}})
                s.append({"op": "poll"})
            elif x < 0.85:
                s.append({"op": "broker", "pk": {"t": "publish", "id": rng.randrange(1, 4), "q": rng.choice([0, 1, 2]), "m": 0}})
                s.append({"op": "poll"})
            elif x < 0.93:
                s.append({"op": "poll"})
            else:
                s.append({"op": "fail"})
                s.append({"op": "poll"})
                up = False
                wire = []
        out.append(s)
    return out


def burst_scripts():
    """A burst from the broker in one go (more than one read batch of the event loop: readb stops after 10 packets), read by the
    polls that follow. Nothing else happens on the connection (no user request, no failure), so the recorded behaviour does not
    depend on which branch the event loop's select picks."""
    out = []
    for k in (9, 10, 11, 12, 21, 25):
        for qs in ([1], [0, 1, 1]):
            s = [{"op": "connect", "sp": False, "rm": 0}]
            for j in range(k):
                s.append({"op": "broker", "pk": {"t": "publish", "id": j % 50 + 1, "q": qs[j % len(qs)], "m": 0}})
            s += [{"op": "poll"}] * (k // 9 + 4)
            out.append(s)
    return out


def loop_traces(ctx, bindir, pid, version, n, scripts, tag, manual=False, throttle_ms=0):
    """Runs the real EventLoop on the scripts, validates the recorded traces. Returns (n_traces, n_events)."""
    sp = ctx.path("scripts_%s.ndjson" % tag)
    with open(sp, "w") as f:
        for s in scripts:
            f.write(json.dumps(s) + "\n")
    tp = ctx.path("traces_%s.ndjson" % tag)
    summ = vlib.last_json(vlib.run_bin(os.path.join(bindir, "client_loop"), [version, n, sp, tp, 1 if manual else 0, throttle_ms], timeout=1200))
    body = "SPECIFICATION TraceSpec\nINVARIANTS %s\nCONSTRAINT Progress\nPOSTCONDITION TraceAccepted\nCHECK_DEADLOCK FALSE\n" % " ".join(TRACE_INV[pid])
    lines = open(tp).read().splitlines()

    def validate(strict, name):
        c = consts(version, n, manual, MaxMsgs=0, ChanCap=0, MaxFails=0, MaxBroker=0, QoSs="{}")
        c["Strict"] = "TRUE" if strict else "FALSE"
        cfg = write_cfg(ctx, "ClientLoopTrace_%s" % name, c, body)
        res = vlib.run_tlc_raw(ctx, "ClientLoopTrace", cfg=cfg, workers=1, timeout=1800, env={"TRACE": tp}, dfs=True, name="trace_" + name, heap="8g")
        if res.invariant_violated:
            # a property invariant fails in a state of a trace the real client produced
            m = __import__("re").findall(r"/\\ l = (\d+)", res.out)
            line = int(m[-1]) if m else 0
            return ("inv", "invariant %s violated by a recorded EventLoop execution" % res.invariant_violated[0], line)
        if "TRACE-REJECTED" in res.out or "Postcondition" in res.out:
            m = __import__("re").search(r'"TRACE-REJECTED at line",\s*(\d+)', res.out)
            line = int(m.group(1)) if m else 0
            return ("rejected", "recorded EventLoop execution is not a behaviour of ClientLoop.tla (first unexplained event %d)" % line, line)
        if not res.ok:
            raise vlib.ToolError("trace validation failed to run: %s" % (res.error,))
        return None

    bad = None
    r1 = validate(True, tag)
    if r1 and r1[0] == "inv":
        bad = r1[1:]
    elif r1:
        # second stage: are the outputs of the real client explainable by the model at all?
        r2 = validate(False, tag + "_obs")
        if r2 is None:
            msg = ("v%d limit %d: the public state of the real EventLoop differs from ClientLoop.tla at event %d (%s), but its outputs are a behaviour of the model and the "
                   "invariants hold on it: the exhaustive TLC results no longer speak about this code (update ClientState.tla / ClientLoop.tla), no property violation shown"
                   % (version, n, r1[2], lines[r1[2] - 1][:160] if 0 < r1[2] <= len(lines) else ""))
            print("DRIFT property=%s %s" % (pid, msg))
            ctx.drift.append({"note": msg})
        else:
            bad = r2[1:]
    if bad:
        what, line = bad
        start = max([j for j in range(min(line, len(lines))) if '"ev":"reset"' in lines[j]] or [0])
        ctx.violation("v%d limit %d: %s: %s" % (version, n, what, lines[line - 1][:400] if 0 < line <= len(lines) else ""),
                      {"version": version, "n": n, "trace": [json.loads(x) for x in lines[start:line]]})
    return summ["scripts"], summ["events"]


LEVEL_TEXT = {
    "C02": "NoLoss / NoLostRelease: every accepted QoS>0 publish (and owed release) is in outgoing_pub / collision / pending / outgoing_rel until its final ack",
    "C07": "ids in 1..limit, no id shared by two unacknowledged publishes, window bound, the gate's counter never above the true count, gate respected, collisions resolvable",
    "C10": "per step: Incoming events = packets processed in order; every written packet announced by exactly one Outgoing event of its kind and id; replies to inbound QoS1/2/PUBREL; unsolicited acks are errors",
    "C11": "carried-over requests are sent before channel requests on a resumed session, dropped on a clean start, and (v4, in-order class) retransmitted in original send order",
}


def run_property(ctx, pid):
    bindir = vlib.build_harness(["client_sm", "client_loop"])
    quick = ctx.quick
    states = transitions = 0
    runs = []
    # 1. exhaustive model checking
    plan = [(4, consts(4, 2, False)), (5, consts(5, 2, False, MaxBroker=1 if quick else 2))]
    if not quick:
        plan = [(4, consts(4, 2, False, MaxBroker=3, ChanCap=2)), (4, consts(4, 3, False, MaxMsgs=4, MaxBroker=2)),
                (5, consts(5, 2, False, MaxBroker=2, ChanCap=2)), (4, consts(4, 2, True, MaxBroker=3)),
                (4, consts(4, 2, False, Subs="TRUE"))]        # subscribes share the packet-id space
    for i, (version, c) in enumerate(plan):
        res = model_check(ctx, pid, version, c, workers=8 if quick else 14, tag="_%d" % i)
        states += res.distinct
        transitions += res.generated
        runs.append({"version": version, "constants": {k: str(v) for k, v in c.items() if k != "Fix"}, "distinct": res.distinct,
                     "generated": res.generated, "depth": res.depth, "ok": res.ok, "exhaustive": not res.partial})
        if not res.ok:
            # the model of the current code violates the property: report with TLC's counterexample
            ctx.violation("ClientLoop.tla (model of the current client code, v%d) violates %s" % (version, res.invariant_violated or "an action property"),
                          {"tlc_counterexample": vlib.tlc_counterexample(res)[:20000]})
    # 2. spec -> impl replay into MqttState
    sm_total = sm_calls = 0
    sm_samples = []
    for (version, n, manual) in ([(4, 2, False), (5, 3, False)] if quick else [(4, 2, False), (4, 3, True), (5, 2, False), (5, 3, True), (4, 5, False)]):
        if pid == "C10":
            manual = not manual if version == 5 else manual
        summ, obs = sm_replay(ctx, bindir, version, n, manual, 20000 if quick else 300000)
        sm_total += summ["behaviours"]
        sm_calls += summ["calls"]
        sm_samples += summ["samples"][:1]
        if summ["mismatching"]:
            fm = summ["first_mismatches"][0]
            ctx.violation("MqttState v%d (limit %d) differs from ClientState.tla at call %d of a generated behaviour: expected %s, got %s"
                          % (version, n, fm["mismatch"]["step"], json.dumps(fm["mismatch"]["expected"])[:300], json.dumps(fm["mismatch"]["got"])[:300]),
                          {"version": version, "n": n, "manual": manual, "script": fm["script"], "mismatch": fm["mismatch"]})
    # 3. impl -> spec traces of the real EventLoop
    n_traces = n_events = 0
    for version in (4, 5):
        scripts = gen_scripts(ctx, version, 2, 400 if quick else 4000)
        half = len(scripts) // 2
        t, e = loop_traces(ctx, bindir, pid, version, 2, scripts[:half], "v%d_n2" % version)
        n_traces += t
        n_events += e
        # the same model, replay paced by pending_throttle (broker packets can overtake a paused replay)
        t, e = loop_traces(ctx, bindir, pid, version, 2, scripts[half:], "v%d_n2_throttle" % version, throttle_ms=10)
        n_traces += t
        n_events += e
    for version, n in ((4, 100), (5, 100)) if quick else ((4, 100), (5, 100), (4, 3), (5, 3), (4, 65535)):
        scripts = random_scripts(ctx.seed * 7 + version + n, n, 10 if quick else 40, 120 if quick else 300)
        if pid == "C10" and n == 100:
            scripts = scripts + burst_scripts()
        t, e = loop_traces(ctx, bindir, pid, version, min(n, 1000), scripts, "v%d_n%d" % (version, n)) if n <= 1000 else (0, 0)
        n_traces += t
        n_events += e
    vlib.write_evidence(ctx, "model_checking", {
        "states": states, "transitions": transitions,
        "traces_validated_against_impl": sm_total + n_traces,
        "samples": sm_samples[:2] + [{"kind": "EventLoop stimulus script (TLC-generated)", "script": scripts[0][:12]}],
        "tlc_runs": runs,
        "invariants": PROPS[pid]["inv"] + PROPS[pid]["act"],
        "checked": LEVEL_TEXT[pid],
        "spec_to_impl": {"mqttstate_behaviours_replayed": sm_total, "calls_compared": sm_calls},
        "impl_to_spec": {"eventloop_traces_validated": n_traces, "events": n_events, "invariants_on_traces": TRACE_INV[pid]},
    }, ["exhaustive only for the stated small constants; limits 100 are covered by validated traces of seeded random drivers",
        "the broker side of the in-memory transport is scripted by the harness; TLS/websocket/proxy transports are not exercised",
        "v5 acknowledgements are modelled with two reason classes (success / failure); topic aliases and other properties are not modelled",
        "a recorded execution that ClientLoop.tla cannot explain is reported as a violation (the model is the reference for the current code)"])


def replay_file(ctx, pid, path):
    v = json.load(open(path))
    bindir = vlib.build_harness(["client_sm", "client_loop"])
    if "trace" in v:
        tp = ctx.path("replay.ndjson")
        with open(tp, "w") as f:
            f.write(json.dumps({"ev": "reset", "version": v["version"], "n": v["n"], "manual": False}) + "\n")
            for e in v["trace"]:
                if e.get("ev") != "reset":
                    f.write(json.dumps(e) + "\n")
        print("replaying the recorded history of %s against ClientLoopTrace.tla" % path)
    print(json.dumps(v, indent=1)[:3000])
