"""C07: see client_common.py and DESIGN.md section 6."""
from checks import client_common


def run(ctx):
    client_common.run_property(ctx, "C07")


def replay(ctx, path):
    client_common.replay_file(ctx, "C07", path)
