#!/usr/bin/env python3
"""rshow.py <trace.ndjson> <line>: prints the router trace of the behaviour containing <line> up to that line"""
import json,sys
lines=open(sys.argv[1]).read().splitlines()
i=int(sys.argv[2])-1
j=i
while '"ev":"reset"' not in lines[j]: j-=1
for k,l in enumerate(lines[j:i+1]):
    e=json.loads(l); p=e.get('proj')
    pk=e.get('pk')
    print(j+k+1, e['ev'], e.get('n',''), (pk and (pk['t'], pk['id'], pk['msg']['m'], pk['msg']['q'], pk['fs'])) or '', json.dumps(e.get('res'))[:70], '| rq', p and p['readyq'], 'ch', p and p['chan'], '| conns', p and [(c.get('cid'),c.get('status'), [(''.join(r['f']),r['cursor'],r['q']) for r in c.get('reqs',[])], c.get('acks'), 'ob',c.get('obuf'), 'tk',c.get('tokens'), c.get('inflight')) for c in p['conns'] if c['live']], '| w', p and [(''.join(f['f']),f['len'], [(w[0],''.join(w[1])) for w in f['waiters']]) for f in p['filters']], '| grave', p and p['grave'])
