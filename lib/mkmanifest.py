#!/usr/bin/env python3
"""Single source of truth for MANIFEST.json (run: python3 lib/mkmanifest.py)."""
import json, os, subprocess

VERIF = os.path.dirname(os.path.dirname(os.path.abspath(__file__)))

CHECKS = {
    "C12": {
        "bins": ["topics"],
        "category": "exploration",
        "text": "MqttTopic.tla is an executable TLA+ statement of the MQTT matching/validation rules (two independent "
                "definitions, seven algebraic laws checked by TLC on every pair up to the bound). TLC enumerates every "
                "string up to length 3 (quick) / 4 (thorough) over an alphabet with '/', '+', '#', '$', letters and a "
                "multi-byte placeholder, and the harness compares all three implementations with the specification's "
                "answer on every pair (equality on valid pairs, no panic and mutual agreement on all pairs), plus "
                "seeded random longer pairs. Exhaustive to the bound: this is a pure function, so enumerating its "
                "input space is the strongest statement the model-based technique can make about it.",
        "design_ref": "DESIGN.md section 6 / C12",
        "note": "Trusted: MqttTopic.tla as the reading of the MQTT rules; TLC; the substitution of the placeholder U by "
                "three concrete multi-byte characters. Beyond the length bound only sampled.",
        "technique": "TLA+ functional specification evaluated exhaustively by TLC; spec-generated vectors replayed into "
                     "the three implementations",
    },
    "C13": {
        "bins": ["commitlog"],
        "category": "model_checking",
        "text": "CommitLog.tla transcribes CommitLog::append/apply_retention/readv and Segment::readv (with their panic "
                "sites) and states the property-level meaning of a read (AbsOut/ReadOk). TLC explores every append "
                "sequence up to 6 (quick) / 8 (thorough) appends of entries smaller than, half of and larger than a "
                "segment for segment limits 1..3 and checks in every state, for every cursor the log has issued so far "
                "(tails, entry offsets, continuations; fresh and stale) and every length in {0,1,2,3,7}: exact retained "
                "suffix, exact continuation, caught-up flag, plus no panic for fabricated cursors and whole-oldest-segment "
                "retention. Every TLC state is replayed into the real CommitLog with result equality (spec->impl); states "
                "where the code differs from the model, and seeded random traces at realistic sizes, are decided by TLC "
                "trace validation against the property-level CommitLogTrace.tla (impl->spec).",
        "design_ref": "DESIGN.md section 6 / C13",
        "note": "Trusted: CommitLog.tla as transcription (bound by equality replay on every explored state), TLC, the harness "
                "binary. Exhaustive only within the stated constants; larger logs are sampled by validated traces.",
        "technique": "TLC model checking of a TLA+ transcription + exhaustive spec->impl replay + TLC trace validation of "
                     "recorded executions",
    },
}

NOT_YET = {}
for i in range(1, 21):
    pid = "C%02d" % i
    if pid not in CHECKS:
        NOT_YET[pid] = "not claimed yet: specification and conformance harness for this property are still under construction (DESIGN.md section 6)"


def head(repo, n=20):
    try:
        out = subprocess.run(["git", "-C", repo, "log", "--format=%H %s", "-n", str(n)], stdout=subprocess.PIPE, text=True).stdout
    except Exception:
        return []
    return [l.split()[0] for l in out.splitlines() if l.split(" ", 1)[1].startswith("verif hooks")]


def main():
    checks = []
    for pid in sorted(CHECKS):
        c = CHECKS[pid]
        checks.append({
            "property_id": pid,
            "quick_cmd": "./check %s quick" % pid,
            "thorough_cmd": "./check %s thorough" % pid,
            "evidence_file": "/verif/evidence/%s.json" % pid,
            "replay_cmd_template": "./check %s quick --replay {path}" % pid,
            "engine": "tlc+harness",
            "level_claimed": {"category": c["category"], "text": c["text"], "design_ref": c["design_ref"]},
            "level_note": c["note"],
            "technique": c["technique"],
        })
    m = {
        "version": 1,
        "setup_cmd": "./setup.sh",
        "hooks": {
            "guard": "--cfg rumqtt_verif (plus --cfg rumqtt_verif_small for the scaled-constant replay build)",
            "enable": "the harness crate /verif/harness (path dependencies on /repo/rumqttc and /repo/rumqttd) is built with "
                      "CARGO_ENCODED_RUSTFLAGS carrying --cfg rumqtt_verif; see lib/vlib.py build_harness",
            "baseline_off_cmd": "cd /repo && cargo test --workspace --no-fail-fast --offline",
            "source_commits": head("/repo"),
            "add_only": True,
        },
        "engines": [
            {"name": "tlc+harness", "path": "/verif/check", "serves_properties": sorted(CHECKS),
             "kind_free_text": "TLA+ specifications in /verif/spec checked by TLC; behaviours and vectors generated by TLC are "
                               "replayed into the real code by /verif/harness, and traces recorded from the real code are "
                               "validated by TLC against trace specifications"},
        ],
        "checks": checks,
        "not_applicable": [{"property_id": p, "reason": r} for p, r in sorted(NOT_YET.items())],
        "notes": "See DESIGN.md. Fixed defects and known findings: /verif/known_findings.json.",
    }
    with open(os.path.join(VERIF, "MANIFEST.json"), "w") as f:
        json.dump(m, f, indent=1)
        f.write("\n")


if __name__ == "__main__":
    main()
