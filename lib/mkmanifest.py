#!/usr/bin/env python3
"""Single source of truth for MANIFEST.json (run: python3 lib/mkmanifest.py)."""
import json, os, subprocess

VERIF = os.path.dirname(os.path.dirname(os.path.abspath(__file__)))

CHECKS = {
    "C01": {
        "bins": ["router_run", "aliases"], "bins_small": ["router_run"],
        "category": "model_checking",
        "text": "RouterSys.tla = Router.tla (a transcription of Router::events/consume, scheduler, waiters, per-filter logs, ack log, graveyard, slab key reuse) + the link side of every connection + clients. TLC checks exhaustively, for 2 clients, overlapping literal/+ filters, QoS 0-2 subscriptions and publishes, subscribe/unsubscribe, all interleavings of link pushes/drains/Ready and router steps (window 3, buffer 4, 2 scheduling iterations): what has been forwarded for every subscription is exactly the filter's log between the subscription's start and its cursor, in order (DeliveredExactly), nothing is forwarded for a filter the session does not subscribe (NoSpurious), every subscription has exactly one data request somewhere (NoLostRequest) and at quiescence every cursor is at the log's end (QuiescentComplete). The model is bound to the code by trace validation: TLC simulates the model with richer constants (3 nets, takeover, disconnects, pings, 3 filters incl. '#', a '$'-topic), the stimuli are executed on the real Router (scaled-constant build) and after every step the harness records the step's result and a projection of the whole routing state; TLC accepts a trace only if every step is a model step with exactly that state, and evaluates the property's invariants in every state. Seeded drivers at production constants (window 100, buffer 200, backlogs of 120-450 messages, four ack pacings) are validated the same way. 'With the original topic' when MQTT 5 topic aliases are in use is decided by Alias.tla (the alias tables of the publishing client, of the broker in both directions and of the subscribing client, transcribed): TLC checks OutOriginal / InOriginal / NoFlags / TablesAgree exhaustively for Topic Alias Maximum 0..2, and TLC-generated plus random scripts run on the real routing core between two real rumqttc v5 state machines; every recorded step (client verdict, accepted topic, forwards with topic and alias exactly as queued for the link) is validated by AliasTrace.tla, strictly and then by the MQTT 5 alias rules alone.",
        "design_ref": "DESIGN.md section 6 / C01 and A.8",
        "note": "Trusted: Router.tla/RouterSys.tla as transcription of rumqttd/src/router (bound step by step by trace validation of the real router with a full state projection), TLC, the verif hooks that step the router single-threaded, the scripted clients of the harness. Exhaustive only for the small configurations; production constants (window 100, buffer 200) sampled by validated traces. Topic aliases are modelled separately (Alias.tla: one publisher, one subscriber, QoS 0) with the scheduling abstracted to one batch per filter and turn; subscription ids, message expiry, segment eviction are not modelled here.",
        "technique": "TLC model checking of RouterSys.tla and Alias.tla + TLC trace validation (state projection per step, invariants on every trace state) of the real router stepped through TLC-generated and seeded schedules",
    },
    "C03": {
        "bins": ["router_run", "linklock"], "bins_small": ["router_run"],
        "category": "model_checking",
        "text": "Router.tla models every unwrap/expect/index/assert of the routing core that an input can reach as an explicit `panicked` flag. TLC explores exhaustively all interleavings of connects (incl. client-id takeover and slab-key reuse), subscribes, publishes, arbitrary acknowledgements from an adversary, link closes and raw Ready/Disconnect/DeviceData events for live, removed and never-registered ids, and checks NoPanic, SlabsAligned, ReadyqSound. TLC-generated schedules with three adversaries, persistent and clean sessions and stale events are executed on the real router (debug assertions on) and validated step by step; a panic of the real router is a violation whatever the model says. Beyond the model, seeded schedules with shared subscriptions, Unicode/odd topics and filters, invalid client ids, wills, Shadow requests and unsolicited acks run on the real router and must end with a fresh client pair still being served (liveness probe). The lock / bounded-channel protocol between a local link's blocking push and the router thread is LinkLock.tla: TLC shows it deadlock-free (and that holding the buffer lock across the send deadlocks); the deadlock schedule is executed on the real code with real threads and must complete.",
        "design_ref": "DESIGN.md section 6 / C03 and A.11",
        "note": "Trusted: Router.tla/RouterSys.tla as transcription of rumqttd/src/router (bound step by step by trace validation of the real router with a full state projection), TLC, the verif hooks that step the router single-threaded, the scripted clients of the harness. Exhaustive only for the small configurations; production constants sampled by validated traces. Topic aliases are modelled separately (Alias.tla: one publisher, one subscriber, QoS 0) with the scheduling abstracted to one batch per filter and turn; subscription ids, message expiry, segment eviction are not modelled here.",
        "technique": "TLC model checking of RouterSys.tla and Alias.tla + TLC trace validation (state projection per step, invariants on every trace state) of the real router stepped through TLC-generated and seeded schedules",
    },
    "C08": {
        "bins": ["router_run"], "bins_small": ["router_run"],
        "category": "model_checking",
        "text": "RouterSys.tla with persistent and clean sessions of the same client id over several network connections (resume, takeover, alternating clean flags), the graveyard, rewind of requests to the oldest unacknowledged forward: TLC checks SessionPresentRule, CleanStartsEmpty, SubMapConsistent, NoLostRequest, DeliveredExactly (what was forwarded and not rewound equals the log between subscription start and cursor, so unacknowledged messages are sent again and acknowledged ones are not), NoSpurious and QuiescentComplete (messages accepted while away are delivered).",
        "design_ref": "DESIGN.md section 6 / C08",
        "note": "Trusted: Router.tla/RouterSys.tla as transcription of rumqttd/src/router (bound step by step by trace validation of the real router with a full state projection), TLC, the verif hooks that step the router single-threaded, the scripted clients of the harness. Exhaustive only for the small configurations; production constants sampled by validated traces. Topic aliases are modelled separately (Alias.tla: one publisher, one subscriber, QoS 0) with the scheduling abstracted to one batch per filter and turn; subscription ids, message expiry, segment eviction are not modelled here.",
        "technique": "TLC model checking of RouterSys.tla and Alias.tla + TLC trace validation (state projection per step, invariants on every trace state) of the real router stepped through TLC-generated and seeded schedules",
    },
    "C06": {
        "bins": ["router_run"], "bins_small": ["router_run"],
        "category": "model_checking",
        "text": "Same model; ghost obligations per connection (PUBACK/PUBREC/PUBCOMP/SUBACK/UNSUBACK/PINGRESP in request order): every reply pushed must be the next one owed to that connection (AcksInOrder) and none is left at quiescence (QuiescentComplete); QoS 2 publishes reach the logs only on release (DeliveredExactly over the log contents). The model is bound to the code by trace validation: TLC simulates the model with richer constants (3 nets, takeover, disconnects, pings, 3 filters incl. '#', a '$'-topic), the stimuli are executed on the real Router (scaled-constant build) and after every step the harness records the step's result and a projection of the whole routing state; TLC accepts a trace only if every step is a model step with exactly that state, and evaluates the property's invariants in every state. Seeded drivers at production constants (window 100, buffer 200, backlogs of 120-450 messages, four ack pacings) are validated the same way.",
        "design_ref": "DESIGN.md section 6 / C06",
        "note": "Trusted: Router.tla/RouterSys.tla as transcription of rumqttd/src/router (bound step by step by trace validation of the real router with a full state projection), TLC, the verif hooks that step the router single-threaded, the scripted clients of the harness. Exhaustive only for the small configurations; production constants (window 100, buffer 200) sampled by validated traces. Topic aliases are modelled separately (Alias.tla: one publisher, one subscriber, QoS 0) with the scheduling abstracted to one batch per filter and turn; subscription ids, message expiry, segment eviction are not modelled here.",
        "technique": "TLC model checking of RouterSys.tla and Alias.tla + TLC trace validation (state projection per step, invariants on every trace state) of the real router stepped through TLC-generated and seeded schedules",
    },
    "C09": {
        "bins": ["router_run"], "bins_small": ["router_run"],
        "category": "model_checking",
        "text": "Same model with backlogs larger than the window, all ack pacings and an adversary sending arbitrary acks: inflight window never above the limit, ids unique and in range, forwarding resumes after in-order acks (QuiescentComplete), and handling one connection's packets never removes another connection (AckClosesOnlyThat). The model is bound to the code by trace validation: TLC simulates the model with richer constants (3 nets, takeover, disconnects, pings, 3 filters incl. '#', a '$'-topic), the stimuli are executed on the real Router (scaled-constant build) and after every step the harness records the step's result and a projection of the whole routing state; TLC accepts a trace only if every step is a model step with exactly that state, and evaluates the property's invariants in every state. Seeded drivers at production constants (window 100, buffer 200, backlogs of 120-450 messages, four ack pacings) are validated the same way.",
        "design_ref": "DESIGN.md section 6 / C09",
        "note": "Trusted: Router.tla/RouterSys.tla as transcription of rumqttd/src/router (bound step by step by trace validation of the real router with a full state projection), TLC, the verif hooks that step the router single-threaded, the scripted clients of the harness. Exhaustive only for the small configurations; production constants (window 100, buffer 200) sampled by validated traces. Topic aliases are modelled separately (Alias.tla: one publisher, one subscriber, QoS 0) with the scheduling abstracted to one batch per filter and turn; subscription ids, message expiry, segment eviction are not modelled here.",
        "technique": "TLC model checking of RouterSys.tla and Alias.tla + TLC trace validation (state projection per step, invariants on every trace state) of the real router stepped through TLC-generated and seeded schedules",
    },
    "C14": {
        "bins": ["router_run"], "bins_small": ["router_run"],
        "category": "model_checking",
        "text": "RouterSys.tla with a well-behaved publisher/subscriber pair and adversaries (arbitrary acks, disconnects, reconnect storms under their own ids, raw late events): the pair's delivery and reply invariants (DeliveredExactly, AcksInOrder, QuiescentComplete) must hold whatever the others do, handling one connection's packets removes at most that connection (AckClosesOnlyThat), and a Ready/PublishWill of an ended connection never removes a later one. The cross-generation demand for Event::Disconnect is a listed known finding (a late Disconnect removes the connection that reuses the slab id): its witness is replayed on every run and reported as KNOWN-FINDING while it reproduces; every other violation is still reported. TLC-generated schedules and seeded structured scenarios are executed on the real Router (scaled-constant build) and validated step by step against RouterTrace.tla with these invariants evaluated in every state.",
        "design_ref": "DESIGN.md section 6 / C14",
        "note": "Trusted: Router.tla/RouterSys.tla as transcription of rumqttd/src/router (bound step by step by trace validation of the real router with a full state projection), TLC, the verif hooks that step the router single-threaded, the scripted clients of the harness. Exhaustive only for the small configurations; production constants sampled by validated traces. Topic aliases are modelled separately (Alias.tla: one publisher, one subscriber, QoS 0) with the scheduling abstracted to one batch per filter and turn; subscription ids, message expiry, segment eviction are not modelled here.",
        "technique": "TLC model checking of RouterSys.tla and Alias.tla + TLC trace validation (state projection per step, invariants on every trace state) of the real router stepped through TLC-generated and seeded schedules",
    },
    "C15": {
        "bins": ["router_run"], "bins_small": ["router_run"],
        "category": "model_checking",
        "text": "RouterSys.tla with retained and empty-payload publishes, literal and wildcard subscriptions at QoS 0-2, re-subscription: ghost rules (RetainedRules) demand that every retained replay pushed for a subscription consists of the current retained messages of matching topics only, each once, only for a new subscription, and complete unless cut by the delivery window; live forwards are unflagged (DeliveredExactly counts only unflagged forwards), and the set of retained topics is part of the state projection compared with the real router at every step. TLC-generated schedules and seeded structured scenarios are executed on the real Router (scaled-constant build) and validated step by step against RouterTrace.tla with these invariants evaluated in every state.",
        "design_ref": "DESIGN.md section 6 / C15",
        "note": "Trusted: Router.tla/RouterSys.tla as transcription of rumqttd/src/router (bound step by step by trace validation of the real router with a full state projection), TLC, the verif hooks that step the router single-threaded, the scripted clients of the harness. Exhaustive only for the small configurations; production constants sampled by validated traces. Topic aliases are modelled separately (Alias.tla: one publisher, one subscriber, QoS 0) with the scheduling abstracted to one batch per filter and turn; subscription ids, message expiry, segment eviction are not modelled here.",
        "technique": "TLC model checking of RouterSys.tla and Alias.tla + TLC trace validation (state projection per step, invariants on every trace state) of the real router stepped through TLC-generated and seeded schedules",
    },
    "C16": {
        "bins": ["router_run", "wills"], "bins_small": ["router_run"],
        "category": "model_checking",
        "text": "Will.tla is the decision table of one connection's life seen from outside (will none/plain/retained x QoS x end by socket drop / protocol error / DISCONNECT / keep-alive expiry x an earlier connection of the same client id whose will fired x protocol version -> how often a standing subscriber sees the will, what a late subscriber gets as retained); TLC checks that the table implies the property and enumerates the rows, each row runs through the real remote() of server/broker.rs with a real router thread. Routing core: RouterSys.tla with wills registered at connect, DISCONNECT packets, link ends and PublishWill events in every order: WillAtMostOnce, WillNeverAfterDisconnect, WillPublishedWhenDue (checked when the event channel is empty), and the will reaches the matching subscribers like any publish (DeliveredExactly, retained wills via RetainedRules). The link-side decision (remote(): will delay, takeover cancel/fire) is not part of this check. TLC-generated schedules and seeded structured scenarios are executed on the real Router (scaled-constant build) and validated step by step against RouterTrace.tla with these invariants evaluated in every state. The ways a connection ends include an MQTT 5 DISCONNECT that carries a reason code and properties.",
        "design_ref": "DESIGN.md section 6 / C16",
        "note": "Trusted: Router.tla/RouterSys.tla as transcription of rumqttd/src/router (bound step by step by trace validation of the real router with a full state projection), TLC, the verif hooks that step the router single-threaded, the scripted clients of the harness. Exhaustive only for the small configurations; production constants sampled by validated traces. Topic aliases are modelled separately (Alias.tla: one publisher, one subscriber, QoS 0) with the scheduling abstracted to one batch per filter and turn; subscription ids, message expiry, segment eviction are not modelled here.",
        "technique": "TLC model checking of RouterSys.tla and Alias.tla + TLC trace validation (state projection per step, invariants on every trace state) of the real router stepped through TLC-generated and seeded schedules",
    },
    "C02": {
        "bins": ["client_sm", "client_loop"],
        "category": "model_checking",
        "text": "ClientLoop.tla models MqttState and the EventLoop (request gate, pending, clean, reconnect with and without session) against an adversarial broker with a failure possible in every state; TLC checks NoLoss/NoLostRelease exhaustively for limit 2 (v4 and v5). The model is bound to the code in both directions: TLC-generated call sequences are replayed into the real rumqttc::MqttState and rumqttc::v5::MqttState with every observable compared, and the real EventLoop (both versions) is driven over an in-memory transport under paused time by TLC-generated and seeded random stimulus scripts (limits 2 and 100) whose recorded traces TLC validates against ClientLoopTrace.tla with this property's invariants evaluated in every state.",
        "design_ref": "DESIGN.md section 6 / C02",
        "note": "Trusted: ClientState.tla/ClientLoop.tla as transcription of state.rs/eventloop.rs (bound by call-by-call equality replay of MqttState and by trace validation of the real EventLoop), TLC, the scripted in-memory broker of the harness. Exhaustive only for limits 2-3 and a handful of messages; limit 100 sampled by validated traces. v5 acknowledgements are modelled with two reason classes (success / failure code); topic aliases are not modelled.",
        "technique": "TLC model checking of ClientLoop.tla + spec->impl replay into MqttState + TLC trace validation of real EventLoop executions with the property invariants evaluated on every trace state",
    },
    "C07": {
        "bins": ["client_sm", "client_loop"],
        "category": "model_checking",
        "text": "Same model; TLC checks id range, uniqueness among unacknowledged publishes, window bound, that the counter the gate reads never exceeds the true number of unacknowledged publishes, that channel requests are only taken through an open gate and that a pending collision is always resolvable (v4 and v5 incl. receive maximum lowered on reconnect). The model is bound to the code in both directions: TLC-generated call sequences are replayed into the real rumqttc::MqttState and rumqttc::v5::MqttState with every observable compared, and the real EventLoop (both versions) is driven over an in-memory transport under paused time by TLC-generated and seeded random stimulus scripts (limits 2 and 100) whose recorded traces TLC validates against ClientLoopTrace.tla with this property's invariants evaluated in every state.",
        "design_ref": "DESIGN.md section 6 / C07",
        "note": "Trusted: ClientState.tla/ClientLoop.tla as transcription of state.rs/eventloop.rs (bound by call-by-call equality replay of MqttState and by trace validation of the real EventLoop), TLC, the scripted in-memory broker of the harness. Exhaustive only for limits 2-3 and a handful of messages; limit 100 sampled by validated traces. v5 acknowledgements are modelled with two reason classes (success / failure code); topic aliases are not modelled.",
        "technique": "TLC model checking of ClientLoop.tla + spec->impl replay into MqttState + TLC trace validation of real EventLoop executions with the property invariants evaluated on every trace state",
    },
    "C10": {
        "bins": ["client_sm", "client_loop"],
        "category": "model_checking",
        "text": "Same model with every broker packet kind (v5: acknowledgements with success and with failure reason codes) and ids 0..limit+1; TLC checks on every transition that Incoming events equal the processed packets in order and that written packets and Outgoing announcements correspond one to one; replies to QoS1/QoS2/PUBREL and error results for unsolicited acks are part of the transcription that is bound to the code by the MqttState replay (manual acks on and off). The model is bound to the code in both directions: TLC-generated call sequences are replayed into the real rumqttc::MqttState and rumqttc::v5::MqttState with every observable compared, and the real EventLoop (both versions) is driven over an in-memory transport under paused time by TLC-generated and seeded random stimulus scripts (limits 2 and 100) whose recorded traces TLC validates against ClientLoopTrace.tla with this property's invariants evaluated in every state. Separate scripts send bursts of 9-25 publishes from the broker between two polls (more than one read batch) on an otherwise idle connection.",
        "design_ref": "DESIGN.md section 6 / C10",
        "note": "Trusted: ClientState.tla/ClientLoop.tla as transcription of state.rs/eventloop.rs (bound by call-by-call equality replay of MqttState and by trace validation of the real EventLoop), TLC, the scripted in-memory broker of the harness. Exhaustive only for limits 2-3 and a handful of messages; limit 100 sampled by validated traces. v5 acknowledgements are modelled with two reason classes (success / failure code); topic aliases are not modelled.",
        "technique": "TLC model checking of ClientLoop.tla + spec->impl replay into MqttState + TLC trace validation of real EventLoop executions with the property invariants evaluated on every trace state",
    },
    "C11": {
        "bins": ["client_sm", "client_loop"],
        "category": "model_checking",
        "text": "Same model with ghosts for send order and carried-over requests; TLC checks replay-first, clean-start-drops-pending and (v4, in-order QoS1 class) retransmission order = original send order, including repeated failures during replay and id wrap-around. The model is bound to the code in both directions: TLC-generated call sequences are replayed into the real rumqttc::MqttState and rumqttc::v5::MqttState with every observable compared, and the real EventLoop (both versions) is driven over an in-memory transport under paused time by TLC-generated and seeded random stimulus scripts (limits 2 and 100) whose recorded traces TLC validates against ClientLoopTrace.tla with this property's invariants evaluated in every state.",
        "design_ref": "DESIGN.md section 6 / C11",
        "note": "Trusted: ClientState.tla/ClientLoop.tla as transcription of state.rs/eventloop.rs (bound by call-by-call equality replay of MqttState and by trace validation of the real EventLoop), TLC, the scripted in-memory broker of the harness. Exhaustive only for limits 2-3 and a handful of messages; limit 100 sampled by validated traces. v5 acknowledgements are modelled with two reason classes (success / failure code); topic aliases are not modelled.",
        "technique": "TLC model checking of ClientLoop.tla + spec->impl replay into MqttState + TLC trace validation of real EventLoop executions with the property invariants evaluated on every trace state",
    },
    "C18": {
        "bins": ["client_keepalive"],
        "category": "model_checking",
        "text": "Keepalive.tla is a discrete-time model (one tick = 1/K of the keep-alive interval) of the event loop's keep-alive timer, the await_pingresp flag, a broker that answers each PINGREQ after 0..2K ticks or never, other traffic, keep-alive zero, a stalled handshake against the connection timeout, and a second connection made by the same event loop after a reported failure (the outstanding-ping flag must not survive the reconnect). TLC checks for K = 0,2,3 (v4) and 5 (v5) (thorough: more values): a PINGREQ in every interval, a silent broker reported no later than the second interval, no keep-alive failure while every reply came within the interval, no ping with keep-alive zero, timeout exactly at the configured time. TLC-generated broker schedules are replayed into the real EventLoop (both versions) over the in-memory transport under paused tokio time; the per-tick record of what the client did (PINGREQ seen by the broker, failure reported, PINGRESP delivered) is validated by TLC against KeepaliveTrace.tla with the invariants evaluated in every state. For MQTT 5 the keep-alive in force can also come from the CONNACK's Server Keep Alive (0 = off, values below the client's minimum of 5 s): the scripted broker sends it and the same model and trace validation apply with K = that value.",
        "design_ref": "DESIGN.md section 6 / C18",
        "note": "Trusted: Keepalive.tla, TLC, tokio's paused clock (virtual time, one tick = one second), the scripted broker of the harness. A reply landing exactly on a timer tick is left undecided (both outcomes accepted).",
        "technique": "TLC model checking of a discrete-time TLA+ model + spec->impl replay of TLC-generated broker schedules with TLC trace validation of the recorded ticks",
    },
    "C19": {
        "bins": ["admission", "router_run"], "bins_small": ["router_run"],
        "category": "model_checking",
        "text": "Admission.tla is the decision table of a new network connection: first packet kind and protocol level x keep-alive x client-id class x clean flag x auth configuration (none / static / callback) x login (absent / wrong / right / right user with a prefix of the password / right user with an empty password) x router occupancy -> accept / error CONNACK / silent close. TLC checks for all 8640 rows that the table implies what the property demands (Demanded) and enumerates the rows; every row (quick: all rows whose first packet arrives plus a seventh of the connect-timeout rows) is executed through the real remote() of server/broker.rs with a real router thread over an in-memory stream, and the observed outcome plus whether a later SUBSCRIBE/PUBLISH reaches a monitor subscriber is compared with the table. One-live-connection-per-client-id and live-connections-within-max are invariants of RouterSys.tla (SlabsAligned), model-checked over connect/disconnect/takeover histories with max_connections 1 and 2 and validated on traces of the real router.",
        "design_ref": "DESIGN.md section 6 / C19",
        "note": "Trusted: Admission.tla as the reading of the code's checks, TLC, the harness' classification of what the candidate reads back (250 ms window, real time). TLS client certificates, websockets and the bridge are not exercised.",
        "technique": "TLA+ decision table enumerated by TLC and replayed row by row into the real admission path + TLC model checking and trace validation of the router's connection bookkeeping",
    },
    "C04": {
        "bins": ["codecs"],
        "category": "exploration",
        "text": "Wire.tla defines the packet value spaces of MQTT 3.1.1 (888 values) and MQTT 5 (4241 values), boundary-complete in every length-carrying field, and for 3.1.1 the complete byte layout (Bytes4, as runs). TLC evaluates the spaces and the layout; the harness builds each value in the client and the broker codec of that version and checks decode(encode(p)) = p in both crates, consumed = produced, size() = bytes written, byte-identity of the two independent encoders, cross-decoding client<->broker, equality of the real bytes with Wire!Bytes4 (3.1.1) and of the header byte (5).",
        "design_ref": "DESIGN.md section 6 / C04",
        "note": "Trusted: Wire.tla as the reading of the standard's layout, TLC, the harness' value<->struct mapping (one mapping per crate, written against the public types). v5 property bytes are checked by round trip and by agreement of two independent encoders, not against a TLA+ layout.",
        "technique": "TLA+ value-space and byte-layout specification evaluated by TLC and replayed vector by vector into the four real codecs",
    },
    "C05": {
        "bins": ["codecs"],
        "category": "exploration",
        "text": "Framing.tla states what one decoder call may answer given only the first bytes of the buffer, the number of buffered bytes and the maximum size: need-more exactly while the fixed header or the declared frame is incomplete (never on a complete frame), error on a malformed length or a declared length above the maximum, and on success consumption of exactly the declared frame. Byte strings (all strings up to length 3/4 over a header-grammar alphabet under all chunkings, 256 first bytes x 16 length shapes, structural mutations of every valid frame of Wire.tla, concatenated frames under random chunkings, maximum sizes around the frame) are run through the four decoders inside a Framed-like loop; TLC checks every recorded call against Framing!CallOk (FramingTrace.tla); outputs of different chunkings of the same bytes must be equal; a panic is a violation. The client decoders are entered the way the event loop enters them, through the tokio_util Decoder of the public Codec with an outgoing limit that differs from the incoming one, and must agree with Packet::read under the incoming limit.",
        "design_ref": "DESIGN.md section 6 / C05",
        "note": "Trusted: Framing.tla, TLC, the harness loop (append chunk, call decoder until need-more/error). Not exhaustive beyond the stated lengths.",
        "technique": "TLA+ per-call framing contract checked by TLC on call records of the real decoders (impl->spec) over enumerated and mutated byte strings",
    },
    "C20": {
        "bins": ["codecs", "crossver", "aliases"],
        "category": "exploration",
        "text": "The packet values the routing core can hand to a link are the broker-to-client subset of Wire!Packets5 (enumerated by TLC: publishes with every subset of publish properties, acks/releases with reason codes and properties, subacks, unsubacks, ping responses, disconnects). Each is written with the broker's 3.1.1 and 5 protocol and decoded by the matching client codec: no error, no panic, same topic/payload/ids, properties dropped towards 3.1.1 and preserved towards 5. End to end, a real router thread and two real remote() tasks carry a QoS 1 publish between all four pairs of listener versions, a v5 publisher using every subset of five publish properties, a v5 subscriber plain, with a subscription identifier, and with Topic Alias Maximum set; the subscriber's bytes are decoded with its client codec and compared, the publisher must still get its PUBACK. 'The same topic' under MQTT 5 topic aliases (either direction) is decided by Alias.tla: model-checked by TLC for Topic Alias Maximum 0..2 and bound to the real routing core and the real rumqttc v5 state machines by trace validation (AliasTrace.tla) of TLC-generated and random scripts.",
        "design_ref": "DESIGN.md section 6 / C20 and A.8",
        "note": "Trusted: Wire.tla's value space as the set of notifications, the harness. Real time (multi-thread runtime) in the end-to-end part with generous timeouts (500-800 ms waits on an in-memory stream).",
        "technique": "TLC-enumerated notification values replayed into both broker protocol writers + end-to-end runs over the real router and remote() + TLC model checking of Alias.tla with TLC trace validation of the real alias handling",
    },
    "C17": {
        "bins": ["router_run"], "bins_small": ["router_run"],
        "category": "model_checking",
        "text": "Router.tla models Router.shared_subscriptions (per group: members in order, whose turn, cursor), how a member's request adopts the group cursor, the skip / park / forward decision of forward_device_data for the three strategies, and the group clean-up on UNSUBSCRIBE, disconnect and session resume; RouterSys.tla states the property on ghost state: per shared path the messages forwarded since the group became non-empty (at most once, only to members, per member in log order, only messages accepted since then) and, when the router is still and the members have acknowledged, every message accepted since then forwarded. TLC model-checks 4 (quick) / 9 (thorough) small configurations (round-robin, random, sticky; members leaving, unsubscribing, persistent, resuming; two paths under one group name; QoS 0-2). TLC-generated schedules and seeded drivers (joins, leaves, take-overs, resumes, bursts, ack pacing; scaled and production constants) plus the histories that exposed the repaired defects run on the real router; every recorded step must be a model step with the same projection (including every group's members, turn and cursor) and the invariants are evaluated in every state.",
        "design_ref": "DESIGN.md section 6 / C17",
        "note": "Trusted: Router.tla as the reading of routing.rs / shared_subs.rs, TLC, the harness projection. Known finding persistent-member-rewind is witnessed on the real router and its duplicates are left out of the at-most-once invariant (SharedAtMostOnceButRewind).",
        "technique": "TLC model checking of the TLA+ router model with shared groups + spec->impl replay of TLC-generated schedules with TLC trace validation (impl->spec) of every router step",
    },
    "C12": {
        "bins": ["topics"],
        "category": "exploration",
        "text": "MqttTopic.tla is an executable TLA+ statement of the MQTT matching/validation rules (two independent "
                "definitions, seven algebraic laws checked by TLC on every pair up to the bound). TLC enumerates every "
                "string up to length 3 (quick) / 4 (thorough) over an alphabet with '/', '+', '#', '$', letters and a "
                "multi-byte placeholder, and the harness compares all three implementations with the specification's "
                "answer on every pair (equality on valid pairs, no panic and mutual agreement on all pairs), plus "
                "seeded random longer pairs. Exhaustive to the bound: this is a pure function, so enumerating its "
                "input space is the strongest statement the model-based technique can make about it.",
        "design_ref": "DESIGN.md section 6 / C12",
        "note": "Trusted: MqttTopic.tla as the reading of the MQTT rules; TLC; the substitution of the placeholder U by "
                "three concrete multi-byte characters. Beyond the length bound only sampled.",
        "technique": "TLA+ functional specification evaluated exhaustively by TLC; spec-generated vectors replayed into "
                     "the three implementations",
    },
    "C13": {
        "bins": ["commitlog"],
        "category": "model_checking",
        "text": "CommitLog.tla transcribes CommitLog::append/apply_retention/readv and Segment::readv (with their panic "
                "sites) and states the property-level meaning of a read (AbsOut/ReadOk). TLC explores every append "
                "sequence up to 6 (quick) / 8 (thorough) appends of entries smaller than, half of and larger than a "
                "segment for segment limits 1..3 and checks in every state, for every cursor the log has issued so far "
                "(tails, entry offsets, continuations; fresh and stale) and every length in {0,1,2,3,7}: exact retained "
                "suffix, exact continuation, caught-up flag, plus no panic for fabricated cursors and whole-oldest-segment "
                "retention. Every TLC state is replayed into the real CommitLog with result equality (spec->impl); states "
                "where the code differs from the model, and seeded random traces at realistic sizes, are decided by TLC "
                "trace validation against the property-level CommitLogTrace.tla (impl->spec).",
        "design_ref": "DESIGN.md section 6 / C13",
        "note": "Trusted: CommitLog.tla as transcription (bound by equality replay on every explored state), TLC, the harness "
                "binary. Exhaustive only within the stated constants; larger logs are sampled by validated traces.",
        "technique": "TLC model checking of a TLA+ transcription + exhaustive spec->impl replay + TLC trace validation of "
                     "recorded executions",
    },
}

NOT_YET = {}
for i in range(1, 21):
    pid = "C%02d" % i
    if pid not in CHECKS:
        NOT_YET[pid] = "not claimed yet: specification and conformance harness for this property are still under construction (DESIGN.md section 6)"


def head(repo, n=1000):
    try:
        out = subprocess.run(["git", "-C", repo, "log", "--format=%H %s", "-n", str(n)], stdout=subprocess.PIPE, text=True).stdout
    except Exception:
        return []
    return [l.split()[0] for l in out.splitlines() if l.split(" ", 1)[1].startswith("verif hooks")]


def main():
    checks = []
    for pid in sorted(CHECKS):
        c = CHECKS[pid]
        checks.append({
            "property_id": pid,
            "quick_cmd": "./check %s quick" % pid,
            "thorough_cmd": "./check %s thorough" % pid,
            "evidence_file": "/verif/evidence/%s.json" % pid,
            "replay_cmd_template": "./check %s quick --replay {path}" % pid,
            "engine": "tlc+harness",
            "level_claimed": {"category": c["category"], "text": c["text"], "design_ref": c["design_ref"]},
            "level_note": c["note"],
            "technique": c["technique"],
        })
    m = {
        "version": 1,
        "setup_cmd": "./setup.sh",
        "hooks": {
            "guard": "--cfg rumqtt_verif (plus --cfg rumqtt_verif_small for the scaled-constant replay build)",
            "enable": "the harness crate /verif/harness (path dependencies on /repo/rumqttc and /repo/rumqttd) is built with "
                      "CARGO_ENCODED_RUSTFLAGS carrying --cfg rumqtt_verif; see lib/vlib.py build_harness",
            "baseline_off_cmd": "cd /repo && cargo test --workspace --no-fail-fast --offline",
            "source_commits": head("/repo"),
            "add_only": True,
        },
        "engines": [
            {"name": "tlc+harness", "path": "/verif/check", "serves_properties": sorted(CHECKS),
             "kind_free_text": "TLA+ specifications in /verif/spec checked by TLC; behaviours and vectors generated by TLC are "
                               "replayed into the real code by /verif/harness, and traces recorded from the real code are "
                               "validated by TLC against trace specifications"},
        ],
        "checks": checks,
        "not_applicable": [{"property_id": p, "reason": r} for p, r in sorted(NOT_YET.items())],
        "notes": "See DESIGN.md. Fixed defects and known findings: /verif/known_findings.json.",
    }
    with open(os.path.join(VERIF, "MANIFEST.json"), "w") as f:
        json.dump(m, f, indent=1)
        f.write("\n")


if __name__ == "__main__":
    main()
