#!/bin/bash
# usage: mut_setup.sh <PID>... : scratch worktree /tmp/mut-<PID> of /repo HEAD and /tmp/mut-<PID>-out/property.txt
for id in "$@"; do
  git -C /repo worktree add -q /tmp/mut-$id HEAD
  mkdir -p /tmp/mut-$id-out
  python3 - $id <<'PY'
import json,sys
for l in open('/verif/properties.jsonl'):
    d=json.loads(l)
    if d['id']==sys.argv[1]:
        open('/tmp/mut-%s-out/property.txt'%d['id'],'w').write("%s: %s\n\n%s\n\nQuantified over: %s\n\nAnchors: %s\n" % (d['id'], d['title'], d['statement'], d['quantifier']['text'], json.dumps(d['anchors'],indent=1)))
PY
done
