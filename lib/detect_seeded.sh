#!/bin/bash
# usage: detect_seeded.sh <seeded-id>... : applies each seeded change to /repo, runs the property's quick check, restores the tree
cd /verif
for id in "$@"; do
  pid=${id%%-*}
  git -C /repo checkout -q -- . ; git -C /repo clean -fdq
  if ! git -C /repo apply /verif/seeded/$id/patch.diff; then echo "$id: patch does not apply" >> work/t/detect.log; continue; fi
  s=$(date +%s)
  ./check $pid quick > work/t/d_$id.log 2>&1
  rc=$?
  git -C /repo checkout -q -- . ; git -C /repo clean -fdq
  echo "$id exit=$rc $(( $(date +%s) - s ))s viol=$(grep -c '^VIOLATION' work/t/d_$id.log) drift=$(grep -c '^DRIFT' work/t/d_$id.log) :: $(grep -m1 'violation:' work/t/d_$id.log | cut -c1-260)" >> work/t/detect.log
done
