INIT Init
NEXT Next
