CONSTANTS
  Version = 4
  N = 2
  ManualAcks = FALSE
  Fix = {"pubcomp_collision", "clean_collision", "rel_id_reuse", "clean_order", "clean_start_rotation", "replay_window", "pkid_wrap", "ack_failure"}
  GateFix = TRUE
  MaxMsgs = 6
  ChanCap = 3
  MaxFails = 3
  MaxBroker = 8
  QoSs = {1, 2}
  Subs = TRUE
  EmitAt = 30
SPECIFICATION GenSpec
INVARIANTS EmitScript
CHECK_DEADLOCK FALSE
