CONSTANTS
  Cap = 4
  Sizes = {1, 2, 5}
  Lims = {1, 2, 3}
  MaxAppends = 6
  Lens = {0, 1, 2, 3, 7}
  Emit = TRUE
SPECIFICATION Spec
INVARIANTS Structure IssuedWellFormed ReadsOk NoPanic EmitVector
PROPERTIES OnlyOldestWhole
CHECK_DEADLOCK FALSE
