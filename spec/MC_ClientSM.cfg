CONSTANTS
  Version = 4
  N = 2
  ManualAcks = FALSE
  Fix = {"pubcomp_collision", "clean_collision", "rel_id_reuse", "clean_order", "clean_start_rotation", "replay_window", "pkid_wrap", "ack_failure"}
  MaxMsgs = 4
  MaxOps = 7
  EmitAt = 0
SPECIFICATION Spec
VIEW View
CONSTRAINT Bound
INVARIANTS NoPanic CountNotAbove CollisionHeld SlotsConsistent
CHECK_DEADLOCK FALSE
