CONSTANTS
  Nets = {"n1", "n2"}
  MaxConn = 2
  MaxInflight = 3
  MaxChan = 4
  MaxSched = 2
  OutBatch = 2
  MatchRel <- MCMatch
  RFix = {"ready_unknown", "unsuback_one", "unsub_notifs", "resume_submap", "group_bufferfull", "group_per_filter", "unsub_own_group", "unsub_shared_waiter", "group_skip_unread", "resume_rejoin"}
  CIDs = {"c1", "c2"}
  Topics <- MCTopics
  Filters <- MCFilters
  SubFilters <- MCFilters
  Strategy = "RoundRobin"
  NetCid <- MCNetCid
  NetClean <- MCAllClean
  NetWill <- MCNoWill
  SubQoS = {1}
  PubQoS = {0, 1}
  PubRetain = {FALSE}
  Subscribers = {"n1"}
  Publishers = {"n2"}
  Adversaries = {}
  MaxPub = 2
  MaxSubOps = 2
  MaxCloses = 0
  EnUnsub = TRUE
  EnPing = FALSE
  EnDisconnect = FALSE
  PubEmpty = {FALSE}
  EnStale = FALSE
SPECIFICATION FairSpec
PROPERTIES ComesToRest EveryAckArrives
CHECK_DEADLOCK FALSE
