--------------------------------- MODULE Wire ---------------------------------
(***************************************************************************)
(* MQTT packet values and their wire layout (C04, C20).                    *)
(*                                                                         *)
(* A string or payload is a pair <<length, character>> (the character      *)
(* repeated): the codecs never look inside strings, lengths are what       *)
(* matters.  Bytes are written as runs <<byte, count>>; a byte sequence is *)
(* a sequence of runs (not normalised).                                    *)
(*                                                                         *)
(* For MQTT 3.1.1 the complete byte layout of every packet type is given   *)
(* (Bytes4).  For MQTT 5 the first byte of the fixed header is given       *)
(* (Header5); the property encodings are exercised by round trip and by    *)
(* byte-identity between the two independent codec copies.                 *)
(***************************************************************************)
EXTENDS Integers, Sequences, FiniteSets

S(len, ch) == [len |-> len, ch |-> ch]
\* "absent" for optional parts (a record, so that it can be compared with records)
NoneR == [none |-> TRUE]
Code(ch) == IF ch = "a" THEN 97 ELSE IF ch = "b" THEN 98 ELSE 120

Run(b, n) == << <<b, n>> >>
U16(n) == Run(n \div 256, 1) \o Run(n % 256, 1)
StrBytes(s) == U16(s.len) \o Run(Code(s.ch), s.len)
RawBytes(s) == Run(Code(s.ch), s.len)
RECURSIVE Cat(_)
Cat(ss) == IF ss = <<>> THEN <<>> ELSE Head(ss) \o Cat(Tail(ss))
RECURSIVE RLen(_)
RLen(rs) == IF rs = <<>> THEN 0 ELSE Head(rs)[2] + RLen(Tail(rs))

\* variable byte integer (remaining length)
RECURSIVE VarInt(_)
VarInt(n) == IF n < 128 THEN Run(n, 1) ELSE Run(128 + (n % 128), 1) \o VarInt(n \div 128)

B(b) == IF b THEN 1 ELSE 0

(***************************************************************************)
(* MQTT 3.1.1 layout                                                       *)
(***************************************************************************)
Frame(first, body) == Run(first, 1) \o VarInt(RLen(body)) \o body

ConnectFlags(p) ==
    (IF p.login # NoneR THEN 128 + 64 ELSE 0)
      + (IF p.will # NoneR THEN 4 + 8 * p.will.qos + 32 * B(p.will.retain) ELSE 0)
      + 2 * B(p.clean)

Body4(p) ==
    CASE p.t = "connect" ->
           Cat(<< U16(4), Run(77, 1), Run(81, 1), Run(84, 2), Run(4, 1), Run(ConnectFlags(p), 1), U16(p.keep_alive),
                  StrBytes(p.client_id),
                  IF p.will # NoneR THEN StrBytes(p.will.topic) \o StrBytes(p.will.payload) ELSE <<>>,
                  IF p.login # NoneR THEN StrBytes(p.login.user) \o StrBytes(p.login.pass) ELSE <<>> >>)
      [] p.t = "connack" -> Run(B(p.sp), 1) \o Run(p.code, 1)
      [] p.t = "publish" -> StrBytes(p.topic) \o (IF p.qos > 0 THEN U16(p.pkid) ELSE <<>>) \o RawBytes(p.payload)
      [] p.t \in {"puback", "pubrec", "pubrel", "pubcomp", "unsuback"} -> U16(p.pkid)
      [] p.t = "subscribe" -> U16(p.pkid) \o Cat([i \in 1..Len(p.filters) |-> StrBytes(p.filters[i].path) \o Run(p.filters[i].qos, 1)])
      [] p.t = "suback" -> U16(p.pkid) \o Cat([i \in 1..Len(p.codes) |-> Run(p.codes[i], 1)])
      [] p.t = "unsubscribe" -> U16(p.pkid) \o Cat([i \in 1..Len(p.filters) |-> StrBytes(p.filters[i])])
      [] OTHER -> <<>>

First(p) ==
    CASE p.t = "connect" -> 16
      [] p.t = "connack" -> 32
      [] p.t = "publish" -> 48 + 8 * B(p.dup) + 2 * p.qos + B(p.retain)
      [] p.t = "puback" -> 64
      [] p.t = "pubrec" -> 80
      [] p.t = "pubrel" -> 98
      [] p.t = "pubcomp" -> 112
      [] p.t = "subscribe" -> 130
      [] p.t = "suback" -> 144
      [] p.t = "unsubscribe" -> 162
      [] p.t = "unsuback" -> 176
      [] p.t = "pingreq" -> 192
      [] p.t = "pingresp" -> 208
      [] p.t = "disconnect" -> 224

Bytes4(p) == Frame(First(p), Body4(p))
Header5(p) == First(p)

(***************************************************************************)
(* Packet value spaces                                                     *)
(***************************************************************************)
Pkids == {1, 255, 256, 65535}
Bools == {TRUE, FALSE}

Ack(t, k) == [t |-> t, pkid |-> k, reason |-> 0, props |-> NoneR]

\* payload length that makes the remaining length of a publish exactly `target`
PayloadFor(target, topicLen, qos) == target - (2 + topicLen + (IF qos > 0 THEN 2 ELSE 0))

Publishes ==
    UNION {{[t |-> "publish", dup |-> d, qos |-> q, retain |-> r, topic |-> S(tl, "a"), pkid |-> k, payload |-> S(pl, "b"), props |-> NoneR] :
               d \in Bools, r \in Bools, k \in Pkids,
               pl \in {0, 1} \cup {x \in {PayloadFor(tg, tl, q) : tg \in {127, 128, 16383, 16384, 2097151, 2097152}} : x >= 0}}
           : q \in {0, 1, 2}, tl \in {1, 128}}

\* QoS 0 publishes carry no id: keep one representative id for them
PublishesN == {p \in Publishes : p.qos > 0 \/ p.pkid = 1} \cup
              {[t |-> "publish", dup |-> FALSE, qos |-> 1, retain |-> FALSE, topic |-> S(65535, "a"), pkid |-> 7, payload |-> S(3, "b"), props |-> NoneR]}

Wills == {NoneR} \cup {[topic |-> S(1, "a"), payload |-> S(0, "b"), qos |-> 0, retain |-> FALSE],
                        [topic |-> S(128, "a"), payload |-> S(127, "b"), qos |-> 1, retain |-> TRUE],
                        [topic |-> S(3, "a"), payload |-> S(65535, "b"), qos |-> 2, retain |-> FALSE]}
Logins == {NoneR} \cup {[user |-> S(1, "a"), pass |-> S(1, "b")], [user |-> S(128, "a"), pass |-> S(300, "b")]}
Connects ==
    {[t |-> "connect", keep_alive |-> ka, client_id |-> S(cl, "a"), clean |-> c, will |-> w, login |-> lg, props |-> NoneR] :
        ka \in {0, 1, 65535}, cl \in {0, 1, 23, 128}, c \in Bools, w \in Wills, lg \in Logins}
ConnAcks == {[t |-> "connack", sp |-> sp, code |-> c, props |-> NoneR] : sp \in Bools, c \in 0..5}
Acks == {Ack(t, k) : t \in {"puback", "pubrec", "pubrel", "pubcomp"}, k \in Pkids}
Flt(l, q) == [path |-> S(l, "a"), qos |-> q, nolocal |-> FALSE, preserve_retain |-> FALSE, retain_forward |-> 0]
FilterLists == {<<Flt(1, 0)>>, <<Flt(128, 1)>>, <<Flt(65535, 2)>>, <<Flt(1, 2), Flt(2, 0)>>, <<Flt(3, 1), Flt(127, 2), Flt(1, 0)>>}
Subscribes == {[t |-> "subscribe", pkid |-> k, filters |-> fs, props |-> NoneR] : k \in Pkids, fs \in FilterLists}
CodeLists == {<<0>>, <<1>>, <<2>>, <<128>>, <<0, 1>>, <<2, 128, 0>>}
SubAcks == {[t |-> "suback", pkid |-> k, codes |-> cs, props |-> NoneR] : k \in Pkids, cs \in CodeLists}
Unsubscribes == {[t |-> "unsubscribe", pkid |-> k, filters |-> fs, props |-> NoneR] :
                    k \in Pkids, fs \in {<<S(1, "a")>>, <<S(128, "a"), S(2, "a")>>, <<S(65535, "a")>>, <<S(1, "a"), S(2, "a"), S(3, "a")>>}}
UnsubAcks == {[t |-> "unsuback", pkid |-> k, reasons |-> <<0>>, props |-> NoneR] : k \in Pkids}
Plain == {[t |-> "pingreq"], [t |-> "pingresp"], [t |-> "disconnect", reason |-> 0, props |-> NoneR]}

Packets4 == PublishesN \cup Connects \cup ConnAcks \cup Acks \cup Subscribes \cup SubAcks \cup Unsubscribes \cup UnsubAcks \cup Plain

(***************************************************************************)
(* MQTT 5: the same values plus every subset of the optional properties    *)
(* (representative values), failure reason codes, subscription options.    *)
(***************************************************************************)
\* all functions from a subset of keys K to their representative values V
PropSets(K, V) == {[k \in ks |-> V[k]] : ks \in SUBSET K}

PubPropVals == [pfi |-> 1, expiry |-> 5, alias |-> 3, response_topic |-> S(3, "a"), correlation |-> S(2, "b"),
                user |-> << <<S(1, "a"), S(2, "b")>> >>, content_type |-> S(4, "a"), subid |-> <<5, 300, 1>>]
PubProps == {NoneR} \cup (PropSets(DOMAIN PubPropVals, PubPropVals) \ {[k \in {} |-> 0]})
Publishes5 ==
    {[t |-> "publish", dup |-> FALSE, qos |-> q, retain |-> r, topic |-> S(3, "a"), pkid |-> 9, payload |-> S(pl, "b"), props |-> pr] :
        q \in {0, 1, 2}, r \in Bools, pl \in {0, 200}, pr \in PubProps}
    \cup {[p EXCEPT !.props = NoneR] : p \in {x \in PublishesN : x.payload.len < 20000}}

AckPropVals == [reason_string |-> S(5, "a"), user |-> << <<S(1, "a"), S(1, "b")>>, <<S(2, "a"), S(0, "b")>> >>]
AckProps == {NoneR} \cup (PropSets(DOMAIN AckPropVals, AckPropVals) \ {[k \in {} |-> 0]})
FailCode(t) == IF t \in {"puback", "pubrec"} THEN 16 ELSE 146
Acks5 == {[t |-> t, pkid |-> k, reason |-> rc, props |-> pr] :
             t \in {"puback", "pubrec", "pubrel", "pubcomp"}, k \in {1, 65535}, rc \in {0}, pr \in AckProps}
         \cup {[t |-> t, pkid |-> 5, reason |-> FailCode(t), props |-> pr] : t \in {"puback", "pubrec", "pubrel", "pubcomp"}, pr \in AckProps}

ConnPropVals == [session_expiry |-> 60, receive_max |-> 10, max_packet_size |-> 1000, topic_alias_max |-> 7,
                 request_response_info |-> 1, request_problem_info |-> 0, user |-> << <<S(1, "a"), S(1, "b")>> >>,
                 auth_method |-> S(3, "a"), auth_data |-> S(2, "b")]
Singles(V) == {[k \in {x} |-> V[k]] : x \in DOMAIN V} \cup {V}
\* MQTT 5 allows a password without a user name (and a user name without a password); 3.1.1 does not
Logins5 == Logins \cup {[user |-> S(0, "a"), pass |-> S(2, "b")], [user |-> S(3, "a"), pass |-> S(0, "b")]}
Connects5 ==
    {[t |-> "connect", keep_alive |-> 30, client_id |-> S(5, "a"), clean |-> c, will |-> w, login |-> lg, props |-> pr] :
        c \in Bools, w \in Wills, lg \in Logins5, pr \in {NoneR} \cup Singles(ConnPropVals)}

ConnAckPropVals == [session_expiry |-> 60, receive_max |-> 10, max_qos |-> 1, retain_available |-> 1, max_packet_size |-> 1000,
                    assigned_client_id |-> S(6, "a"), topic_alias_max |-> 7, reason_string |-> S(2, "b"),
                    user |-> << <<S(1, "a"), S(1, "b")>> >>, wildcard_sub_available |-> 1, subid_available |-> 1,
                    shared_sub_available |-> 0, server_keep_alive |-> 20, response_info |-> S(2, "a"), server_reference |-> S(2, "b"),
                    auth_method |-> S(3, "a"), auth_data |-> S(2, "b")]
ConnAcks5 == {[t |-> "connack", sp |-> sp, code |-> c, props |-> pr] : sp \in Bools, c \in {0, 128, 133, 134, 135}, pr \in {NoneR} \cup Singles(ConnAckPropVals)}

Flt5(l, q, nl, pr, rf) == [path |-> S(l, "a"), qos |-> q, nolocal |-> nl, preserve_retain |-> pr, retain_forward |-> rf]
Subscribes5 ==
    {[t |-> "subscribe", pkid |-> 11, filters |-> <<Flt5(3, q, nl, pr, rf)>>, props |-> sp] :
        q \in {0, 1, 2}, nl \in Bools, pr \in Bools, rf \in {0, 1, 2},
        sp \in {NoneR, [subid |-> <<5>>], [user |-> << <<S(1, "a"), S(1, "b")>> >>], [subid |-> <<300>>, user |-> << <<S(1, "a"), S(1, "b")>> >>]}}
    \cup {[s EXCEPT !.props = NoneR] : s \in Subscribes}
SubAcks5 == {[t |-> "suback", pkid |-> k, codes |-> cs, props |-> pr] : k \in {1, 65535}, cs \in CodeLists, pr \in AckProps}
Unsubscribes5 == {[t |-> "unsubscribe", pkid |-> 12, filters |-> fs, props |-> pr] :
                    fs \in {<<S(1, "a")>>, <<S(128, "a"), S(2, "a")>>}, pr \in {NoneR, [user |-> << <<S(1, "a"), S(1, "b")>> >>]}}
UnsubAcks5 == {[t |-> "unsuback", pkid |-> k, reasons |-> rs, props |-> pr] : k \in {1, 65535}, rs \in {<<0>>, <<17>>, <<0, 17, 0>>}, pr \in AckProps}
DiscPropVals == [session_expiry |-> 30, reason_string |-> S(4, "a"), user |-> << <<S(1, "a"), S(1, "b")>> >>, server_reference |-> S(3, "b")]
Disconnects5 == {[t |-> "disconnect", reason |-> rc, props |-> pr] : rc \in {0, 4, 142, 129}, pr \in {NoneR} \cup (PropSets(DOMAIN DiscPropVals, DiscPropVals) \ {[k \in {} |-> 0]})}

Packets5 == Publishes5 \cup Acks5 \cup Connects5 \cup ConnAcks5 \cup Subscribes5 \cup SubAcks5 \cup Unsubscribes5 \cup UnsubAcks5
              \cup Disconnects5 \cup {[t |-> "pingreq"], [t |-> "pingresp"]}
=============================================================================
