CONSTANTS
  Version = 4
  N = 2
  ManualAcks = FALSE
  Fix = {"pubcomp_collision", "clean_collision", "rel_id_reuse", "clean_order", "clean_start_rotation", "replay_window", "pkid_wrap", "ack_failure"}
  MaxMsgs = 8
  MaxOps = 30
  EmitAt = 24
SPECIFICATION Spec
INVARIANTS EmitSim
CHECK_DEADLOCK FALSE
