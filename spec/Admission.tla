------------------------------- MODULE Admission -------------------------------
(***************************************************************************)
(* Broker admission (C19): what happens to a new network connection,       *)
(* decided from its first packet, the listener's configuration and the     *)
(* router's occupancy (server/broker.rs remote(), link/remote.rs           *)
(* mqtt_connect / handle_auth, routing.rs handle_new_connection).          *)
(*                                                                         *)
(* Decide(r) is one of                                                     *)
(*   "accept"     a successful CONNACK is written, the session exists      *)
(*   "errconnack" a CONNACK with an error code is written, then closed     *)
(*   "silent"     closed without any CONNACK                               *)
(* In the last two cases nothing the connection sends afterwards has any   *)
(* effect on the broker.                                                   *)
(***************************************************************************)
EXTENDS Integers, FiniteSets

Listeners == {4, 5}
FirstPackets == {"connect4", "connect5", "publish", "pingreq", "garbage", "nothing"}
KeepAlives == {0, 30}
ClientIds == {"plain", "empty", "plus", "dollar", "hash", "slash"}
AuthConfigs == {"none", "static", "callback"}
Logins == {"absent", "wrong", "right",
           "prefix",      \* the right user with a proper prefix of the right password
           "emptypw"}     \* the right user with an empty password

Rows == [listener : Listeners, first : FirstPackets, keep_alive : KeepAlives, cid : ClientIds, clean : BOOLEAN,
         auth : AuthConfigs, login : Logins, full : BOOLEAN]        \* full: the router already holds max_connections sessions

IsConnectOfListener(r) == (r.listener = 4 /\ r.first = "connect4") \/ (r.listener = 5 /\ r.first = "connect5")

AuthOk(r) == \/ r.auth = "none"
             \/ r.auth \in {"static", "callback"} /\ r.login = "right"

Decide(r) ==
    IF ~IsConnectOfListener(r) THEN "silent"                      \* first packet must be a CONNECT of the listener's protocol
    ELSE IF ~AuthOk(r) THEN "silent"                              \* credentials the configuration does not accept
    ELSE IF r.keep_alive = 0 THEN "silent"                        \* zero keep-alive is refused
    ELSE IF r.cid = "empty" /\ ~r.clean THEN "errconnack"         \* persistent session needs a client id
    ELSE IF r.cid \in {"plus", "dollar", "hash", "slash"} THEN "silent"     \* topic metacharacters: the router drops it
    ELSE IF r.full THEN "silent"                                  \* no free slot
    ELSE "accept"

\* what the property demands, independent of the order of the checks above
Demanded(r) ==
    /\ (Decide(r) = "accept") =>
          /\ IsConnectOfListener(r) /\ r.keep_alive # 0
          /\ r.cid \in {"plain", "empty"} /\ (r.cid = "empty" => r.clean)
          /\ (r.auth # "none" => r.login = "right")
          /\ ~r.full
    /\ (IsConnectOfListener(r) /\ r.keep_alive # 0 /\ r.cid = "plain" /\ AuthOk(r) /\ ~r.full) => Decide(r) = "accept"
=============================================================================
