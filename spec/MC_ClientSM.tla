----------------------------- MODULE MC_ClientSM -----------------------------
(* MqttState as a plain state machine: any interleaving of requests, broker     *)
(* packets (every kind, every id in 0..N+1), clean() and re-issue of the         *)
(* retransmission list.  Used (1) to check bookkeeping invariants exhaustively   *)
(* and (2) to generate behaviours that are replayed call by call into the real   *)
(* rumqttc::MqttState / rumqttc::v5::MqttState (spec -> impl).                   *)
EXTENDS ClientState, TLC, Json

CONSTANTS MaxMsgs,     \* fresh publishes per behaviour
          MaxOps,      \* length bound (exhaustive mode)
          EmitAt       \* simulation: print the behaviour when it reaches this length (0 = never)

VARIABLES s,        \* MqttState
          pend,     \* EventLoop.pending as far as the state machine is concerned
          nmsg,     \* message counter
          hist      \* ghost: calls made and results expected (replay script)
vars == <<s, pend, nmsg, hist>>
View == <<s, pend, nmsg>>

Ids == 0..(N + 1)
BrokerPackets ==
    {Pk(t, id, f, 0) : t \in {"puback", "pubrec", "pubrel", "pubcomp"}, id \in Ids, f \in (IF Version = 5 THEN {0, 1} ELSE {0})}
      \cup {Pk("publish", id, q, 0) : id \in 1..2, q \in {0, 1, 2}}
      \cup {Pk("suback", 1, 0, 0), Pk("unsuback", 1, 0, 0), Pk("pingresp", 0, 0, 0), Pk("pingreq", 0, 0, 0)}
      \cup (IF Version = 5 THEN {Pk("connack", 0, q, 0) : q \in {0, 1, N}} \cup {Pk("disconnect", 0, 0, 0)}
            ELSE {Pk("connack", 0, 0, 0)})

Step(call, arg, r) == [call |-> call, arg |-> arg, wr |-> r.wr, ev |-> r.ev, err |-> r.err, vis |-> Visible(r.s),
                       pending |-> CleanPending(r.s)]

Init == s = InitState /\ pend = <<>> /\ nmsg = 0 /\ hist = <<>>

DoOut(p) ==
    LET r == HandleOut(s, p) IN
    /\ s' = r.s
    /\ hist' = Append(hist, Step("out", p, r))

\* (the event loop never takes a new request while `pending` is non-empty)
UserPublish == /\ nmsg < MaxMsgs /\ pend = <<>>
               /\ \E q \in {0, 1, 2} : DoOut(Pk("publish", 0, q, nmsg + 1))
               /\ nmsg' = nmsg + 1 /\ UNCHANGED pend
UserOther == /\ pend = <<>>
             /\ \E t \in {"subscribe", "unsubscribe", "pingreq", "disconnect"} : DoOut(Pk(t, 0, 0, 0))
             /\ UNCHANGED <<pend, nmsg>>
ManualAck == /\ ManualAcks
             /\ \E t \in {"puback", "pubrec"}, id \in 1..2 : DoOut(Pk(t, id, 0, 0))
             /\ UNCHANGED <<pend, nmsg>>
Resend == /\ pend # <<>>
          /\ DoOut(Head(pend))
          /\ pend' = Tail(pend) /\ UNCHANGED nmsg
Broker == /\ \E p \in BrokerPackets :
               LET r == HandleIn(s, p) IN
               /\ s' = r.s
               /\ hist' = Append(hist, Step("in", p, r))
          /\ UNCHANGED <<pend, nmsg>>
DoClean == /\ pend' = pend \o CleanPending(s)
           /\ s' = Clean(s)
           /\ hist' = Append(hist, [call |-> "clean", arg |-> Pk("none", 0, 0, 0), wr |-> CleanPending(s), ev |-> <<>>,
                                    err |-> NONE, vis |-> Visible(Clean(s)), pending |-> <<>>])
           /\ UNCHANGED nmsg
NoSession == /\ pend # <<>> /\ pend' = <<>> /\ UNCHANGED <<s, nmsg, hist>>

Next == /\ ~s.panicked
        /\ (UserPublish \/ UserOther \/ ManualAck \/ Resend \/ Broker \/ DoClean \/ NoSession)
Spec == Init /\ [][Next]_vars

Bound == Len(hist) < MaxOps /\ Len(pend) <= N + 2

---------------------------------------------------------------------------
NoPanic == ~s.panicked
\* the counter the event loop gates on never exceeds what is really unacknowledged
CountNotAbove == s.inflight <= Cardinality(Occupied(s)) + Cardinality(s.outRel)
\* a pending collision waits for an id that is really in use
\* (or carried over for retransmission under that id)
CollisionHeld == s.collision # NOPK =>
    \/ s.outPub[s.collision.id] # NOPK
    \/ s.collision.id \in s.outRel
    \/ \E i \in 1..Len(pend) : pend[i].id = s.collision.id /\ pend[i].t \in {"publish", "pubrel"}
\* every publish slot holds a publish with that id
SlotsConsistent == \A k \in 0..N : s.outPub[k] # NOPK => (s.outPub[k].id = k /\ k >= 1 /\ s.outPub[k].q > 0)

EmitSim == (EmitAt > 0 /\ Len(hist) = EmitAt) => PrintT(<<"BEH", ToJson(hist)>>)
\* exhaustive mode: one line per explored transition
EmitTransition == EmitAt = 0 => PrintT(<<"BEH", ToJson(hist')>>)
=============================================================================
