------------------------------- MODULE RouterSys -------------------------------
(***************************************************************************)
(* The broker as a system: the routing core of Router.tla, the link side   *)
(* of each network connection and the clients behind the links.            *)
(*                                                                         *)
(* Router thread:  REvent (pop one event of the channel, dispatch) and     *)
(*                 RConsume (one consume() turn).                          *)
(* Link of net n:  NConnect, NFinish, NPush, NDrain, NClose, NWill.        *)
(* Clients are the environment: they decide what is pushed; a well-behaved *)
(* client acknowledges what it was sent, in order.                         *)
(*                                                                         *)
(* G is ghost state for the properties (what was forwarded for which       *)
(* subscription of which session, which replies are owed, ...).            *)
(***************************************************************************)
EXTENDS Router

CONSTANTS
    CIDs,           \* client ids
    Topics,         \* topic names (sequences of symbols)
    Filters,        \* topic filters (sequences of symbols); with a shared path $share/g/f also its base filter f
    SubFilters,     \* the filters clients subscribe to / unsubscribe from (subset of Filters)
    NetCid,         \* [Nets -> CIDs]: which client uses which network connection
    NetClean,       \* [Nets -> BOOLEAN]: clean-session flag it connects with
    NetWill,        \* [Nets -> messages or NOMSG]: will it registers
    SubQoS,         \* QoS levels clients subscribe with
    PubQoS,         \* QoS levels clients publish with
    PubRetain,      \* retain flags clients publish with (subset of BOOLEAN)
    Subscribers,    \* nets that subscribe/unsubscribe
    Publishers,     \* nets that publish
    Adversaries,    \* nets that may send arbitrary acknowledgements
    MaxPub,         \* publishes per behaviour
    MaxSubOps,      \* subscribe/unsubscribe operations per behaviour
    MaxCloses,      \* connection ends per behaviour
    EnUnsub, EnPing, EnDisconnect, EnStale,   \* feature switches (BOOLEAN)
    PubEmpty        \* subset of BOOLEAN: publishes with an empty payload (clears a retained message)

\* src: the net whose link sent the event (ghost, for the isolation properties)
Ev(kind, id, arg, src) == [kind |-> kind, id |-> id, arg |-> arg, src |-> src]

SharedFilters == {f \in Filters : IsShared(f)}
\* clients with a live connection that holds the subscription
LiveMembers(r, f) == {c \in CIDs : r.connMap[c] >= 0 /\ f \in r.conns[r.connMap[c]].subs}
\* message ids of the forwards of connection id that are not acknowledged, on the log of filter b
UnackedMs(r, id, b) == {r.logs[b][r.conns[id].inflight[i][3] + 1].m :
                          i \in {i \in 1..Len(r.conns[id].inflight) : r.conns[id].inflight[i][2] = b /\ r.conns[id].inflight[i][3] >= 0}}

GInit ==
    [npub |-> 0, nsub |-> 0, nclose |-> 0,
     \* per session (client id) and filter: log position at which the subscription took effect, -1 = not subscribed
     start |-> [c \in CIDs |-> [f \in Filters |-> -1]],
     \* per session and filter: message ids forwarded (live forwards, in order) since the subscription took effect
     fwd |-> [c \in CIDs |-> [f \in Filters |-> <<>>]],
     \* per net: QoS>0 forwards delivered to the client and not yet acknowledged by it: <<pkid, qos>>
     toAck |-> [n \in Nets |-> <<>>],
     \* per net: PUBRELs delivered to the (subscribing) client, PUBCOMP owed: pkids
     toComp |-> [n \in Nets |-> <<>>],
     \* per net: QoS 2 publishes sent by the client, PUBREL not yet sent: pkids
     toRel |-> [n \in Nets |-> <<>>],
     \* per net: replies owed by the broker, in request order: <<kind, pkid>>
     owed |-> [n \in Nets |-> <<>>],
     \* per net: everything delivered to the client so far (observable stream), bounded use
     spurious |-> FALSE,       \* a forward was pushed for a filter the session is not subscribed to
     badAck |-> FALSE,         \* a reply was pushed that is not the next one owed
     cpk |-> [n \in Nets |-> 0],
     sess |-> [c \in CIDs |-> FALSE],     \* a persistent session of this client id exists (C08)
     badSp |-> FALSE,                     \* a CONNACK carried the wrong session-present flag
     dirtyClean |-> FALSE,                \* a clean-session connection started with subscriptions or requests
     retDone |-> [c \in CIDs |-> [f \in Filters |-> FALSE]],   \* the retained replay of this subscription has happened (C15)
     badRet |-> FALSE,                    \* a retained replay broke a rule of C15
     willCount |-> [c \in CIDs |-> 0],    \* will publishes since the will was registered (C16)
     discHandled |-> [c \in CIDs |-> FALSE],  \* a DISCONNECT packet of the registering connection was handled
     \* ---- C17, per shared filter path
     shstart |-> [f \in SharedFilters |-> -1],   \* log position from which the group is owed messages; -1 = no live member
     shset |-> [f \in SharedFilters |-> {}],      \* message ids forwarded through the group since then and not taken back
     shlast |-> [f \in SharedFilters |-> [c \in CIDs |-> 0]],   \* log position of the last (first-time) forward to each member
     shDup |-> FALSE,          \* a message was forwarded although it was in shset (known finding left out)
     shDupAny |-> FALSE,       \* the same, known finding included
     shBadOrder |-> FALSE,     \* a member was sent a message that lies before one it was sent earlier
     shNotOwed |-> FALSE,      \* a message accepted before the group became non-empty was forwarded through it
     shever |-> [f \in SharedFilters |-> {}],     \* message ids ever forwarded through the group since then
     shredo |-> [f \in SharedFilters |-> {}],     \* message ids whose forward an ended connection took back unacknowledged
     shknown |-> [f \in SharedFilters |-> {}]]    \* known finding: message ids behind a group cursor that was set back

Init ==
    /\ R = RInit(Filters, Topics, CIDs)
    /\ nets = [n \in Nets |-> [NetInit EXCEPT !.cid = NetCid[n], !.clean = NetClean[n], !.will = NetWill[n]]]
    /\ chan = <<>>
    /\ G = GInit

---------------------------------------------------------------------------
(* ghost bookkeeping of a router step: what was appended to the outgoing   *)
(* buffers and which subscriptions took effect / ended                      *)

NewOut(n) == SubSeq(nets'[n].obuf, Len(nets[n].obuf) + 1, Len(nets'[n].obuf))

\* live forwards (not retained replays) pushed for filter f, as message ids
FwdMs(out, f) == LET s == SelectSeq(out, LAMBDA x : x.t = "forward" /\ x.kind = f /\ ~x.retain) IN [i \in 1..Len(s) |-> s[i].m]
\* retained replays pushed for filter f, as message ids
RetMs(out, f) == LET s == SelectSeq(out, LAMBDA x : x.t = "forward" /\ x.kind = f /\ x.retain) IN [i \in 1..Len(s) |-> s[i].m]
AcksOf(out) == LET s == SelectSeq(out, LAMBDA x : x.t = "ack" /\ x.kind \in {"puback", "pubrec", "pubcomp", "suback", "unsuback", "pingresp"})
               IN [i \in 1..Len(s) |-> <<s[i].kind, s[i].id>>]

IsPrefix(a, b) == Len(a) <= Len(b) /\ SubSeq(b, 1, Len(a)) = a

\* session view: subscriptions of cid = those of its live connection, else those saved in the graveyard
SubsOf(r, c) == IF r.connMap[c] >= 0 THEN r.conns[r.connMap[c]].subs
                ELSE IF r.grave[c].state THEN r.grave[c].subs ELSE {}

\* all data requests of session c, wherever they are (tracker, waiters, notifications, graveyard), as a sequence
RECURSIVE WaitReqs(_, _, _)
WaitReqs(r, id, fq) == IF fq = <<>> THEN <<>>
                       ELSE LET w == SelectSeq(r.waiters[Head(fq)], LAMBDA e : e[1] = id) IN
                            [i \in 1..Len(w) |-> w[i][2]] \o WaitReqs(r, id, Tail(fq))
ReqList(r, c) ==
    IF r.connMap[c] >= 0
      THEN LET id == r.connMap[c]
               nf == SelectSeq(r.notifs, LAMBDA e : e[1] = id)
           IN  r.conns[id].reqs \o WaitReqs(r, id, r.created) \o [i \in 1..Len(nf) |-> nf[i][2]]
      ELSE r.grave[c].reqs
ReqsFor(r, c, f) == SelectSeq(ReqList(r, c), LAMBDA q : q.f = f)
\* cursor of the (first) request of session c on filter f, -1 if there is none
ReqCursor(r, c, f) == IF ReqsFor(r, c, f) = <<>> THEN -1 ELSE ReqsFor(r, c, f)[1].cursor

\* replies pushed against replies owed: returns the remaining obligations, or <<"FAIL">>
RECURSIVE MatchAcks(_, _)
MatchAcks(acks, owed) ==
    IF acks = <<>> THEN owed
    ELSE IF owed = <<>> THEN << <<"FAIL", 0>> >>
    ELSE IF Head(acks) = Head(owed) THEN MatchAcks(Tail(acks), Tail(owed))
    ELSE << <<"FAIL", 0>> >>

ConnNet(r, c) == IF r.connMap[c] >= 0 THEN r.conns[r.connMap[c]].net ELSE "nonet"

\* a retained replay of k messages for (n, f) was cut by the delivery window: QoS>0 by the free inflight slots, QoS 0 by
\* max_outgoing_packet_count
WindowLimited(n, f, k) ==
    LET id == nets[n].id IN
    Live(R', id) /\ (Len(R'.conns[id].inflight) = MaxInflight \/ k = OutBatch)

\* the subscription of session c on f took effect in this step (also when it was removed and made again within one batch:
\* the request is then a fresh one, recognisable by its retained-replay flag)
NewSub(c, f) ==
    /\ f \in SubsOf(R', c)
    /\ \/ f \notin SubsOf(R, c)
       \/ /\ ReqsFor(R', c, f) # <<>> /\ ReqsFor(R', c, f)[1].retained
          /\ (ReqsFor(R, c, f) = <<>> \/ ~ReqsFor(R, c, f)[1].retained \/ ReqsFor(R, c, f)[1].cursor # ReqsFor(R', c, f)[1].cursor)

\* every member the group has after the step unsubscribed during the step (and subscribed again): the group was empty
\* in between, what it is owed starts afresh
Regrouped(f) == \A c \in LiveMembers(R', f) : <<c, f>> \in R'.unsubNow
\* some member's connection is the same before and after the step (a connection that replaces another one of the same
\* client id is a member that left and one that joined)
Continued(f) == \E c \in LiveMembers(R, f) \cap LiveMembers(R', f) : ConnNet(R, c) = ConnNet(R', c)
Restarted(f) == ~Continued(f) \/ Regrouped(f)

\* ---- C17 helpers (primed state = after the router step)
PosIn(r, b, m) == CHOOSE i \in 1..Len(r.logs[b]) : r.logs[b][i].m = m
\* forwards that a connection ending (or being replaced) in this step takes back unacknowledged
ShBack(f) == UNION {UnackedMs(R, R.connMap[c], Base(f)) : c \in {c \in CIDs : R.connMap[c] >= 0 /\ ConnNet(R, c) # ConnNet(R', c)}}
\* known finding: the cursor of the group goes backwards in this step (handle_disconnection of a persistent member): the
\* messages between the new and the old cursor that are not taken back will be forwarded a second time
ShRewound(f) == LET k == GroupKey(f) IN
                IF R.groups[k].has /\ R'.groups[k].has /\ R'.groups[k].cursor < R.groups[k].cursor
                  THEN {R.logs[Base(f)][i].m : i \in (R'.groups[k].cursor + 1)..R.groups[k].cursor} ELSE {}
ShKnown(f) == G.shknown[f] \cup ShRewound(f)
ShRedo(f) == G.shredo[f] \cup ShBack(f)
\* log positions of the forwards in ms that are first-time forwards (not redeliveries)
ShFirstPos(f, ms) == LET fs == SelectSeq(ms, LAMBDA m : m \notin ShRedo(f) \cup ShKnown(f)) IN
                     [i \in 1..Len(fs) |-> PosIn(R', Base(f), fs[i])]

\* log position from which the group of f is owed messages, after this step
ShStart(f) == IF LiveMembers(R', f) = {} THEN -1
              ELSE IF Restarted(f) THEN ReqCursor(R', CHOOSE c \in LiveMembers(R', f) : TRUE, f)
              ELSE G.shstart[f]

GhostRouterStep ==
    LET out(n) == NewOut(n)
        newFwd(c, f) == LET ns == {x \in Nets : nets[x].cid = c /\ FwdMs(out(x), f) # <<>>} IN
                        IF ns = {} THEN <<>> ELSE FwdMs(out(CHOOSE x \in ns : TRUE), f)
        rem(n) == MatchAcks(AcksOf(out(n)), G.owed[n])
        failed(n) == rem(n) # <<>> /\ rem(n)[1][1] = "FAIL"
    IN
    G' = [G EXCEPT
            !.start = [c \in CIDs |-> [f \in Filters |->
                        IF f \notin SubsOf(R', c) THEN -1
                        ELSE IF NewSub(c, f) THEN ReqCursor(R', c, f)       \* took effect in this step
                        ELSE G.start[c][f]]],
            !.fwd = [c \in CIDs |-> [f \in Filters |->
                        LET base == G.fwd[c][f] \o newFwd(c, f)
                            k == ReqCursor(R', c, f)
                            st == G.start[c][f]
                        IN  IF f \notin SubsOf(R', c) THEN <<>>
                            ELSE IF NewSub(c, f) THEN <<>>
                            \* the session's connection ended or was replaced: what was not acknowledged will be sent again
                            ELSE IF ConnNet(R, c) # ConnNet(R', c) /\ k >= st /\ k - st < Len(base) THEN SubSeq(base, 1, k - st)
                            ELSE base]],
            !.spurious = @ \/ \E n \in Nets : \E i \in 1..Len(out(n)) :
                             out(n)[i].t = "forward" /\ out(n)[i].kind \notin SubsOf(R', nets[n].cid) /\ out(n)[i].kind \notin SubsOf(R, nets[n].cid),
            !.badAck = @ \/ \E n \in Nets : failed(n),
            \* ---- C15: retained replays pushed in this step, per net and filter
            !.retDone = [c \in CIDs |-> [f \in Filters |->
                            IF f \notin SubsOf(R', c) \/ NewSub(c, f) THEN FALSE
                            ELSE G.retDone[c][f] \/ (\E n \in Nets : nets[n].cid = c /\ RetMs(out(n), f) # <<>>)]],
            !.badRet = @ \/ \E n \in Nets : \E f \in Filters :
                         LET ms == RetMs(out(n), f)
                             c == nets[n].cid
                             due == {R.retained[t].m : t \in {t \in Topics : R.retained[t] # NOMSG /\ Matches(t, f)}}
                         IN  ms # <<>> /\
                             \/ \E i \in 1..Len(ms) : ms[i] \notin due                          \* not the retained message of a matching topic
                             \/ \E i, j \in 1..Len(ms) : i # j /\ ms[i] = ms[j]               \* twice
                             \/ (G.retDone[c][f] /\ f \in SubsOf(R, c))                        \* replayed again for an existing subscription
                             \/ (Len(ms) < Cardinality(due) /\ ~WindowLimited(n, f, Len(ms))),   \* incomplete although it would have fit
            \* ---- C16
            !.willCount = [c \in CIDs |->
                            IF \E n \in Nets : nets[n].cid = c /\ ~nets[n].held /\ nets'[n].held /\ nets[n].will # NOMSG THEN 0
                            ELSE IF R.wills[c] # NOMSG /\ R'.wills[c] = NOMSG /\ chan # <<>> /\ Head(chan).kind = "PublishWill" THEN G.willCount[c] + 1
                            ELSE G.willCount[c]],
            !.discHandled = [c \in CIDs |->
                            IF \E n \in Nets : nets[n].cid = c /\ ~nets[n].held /\ nets'[n].held /\ nets[n].will # NOMSG THEN FALSE
                            ELSE IF R.wills[c] # NOMSG /\ R'.wills[c] = NOMSG /\ chan # <<>> /\ Head(chan).kind = "DeviceData" THEN TRUE
                            ELSE G.discHandled[c]],
            \* C08: connections accepted in this step (a Connect event was handled and the net became held)
            !.sess = [c \in CIDs |-> LET ns == {n \in Nets : nets[n].cid = c /\ ~nets[n].held /\ nets'[n].held} IN
                                      IF ns = {} THEN G.sess[c] ELSE ~nets[CHOOSE n \in ns : TRUE].clean],
            !.badSp = @ \/ \E n \in Nets : /\ ~nets[n].held /\ nets'[n].held
                                            /\ LET c == R'.conns[nets'[n].id] IN
                                               c.acks[1].id # (IF ~nets[n].clean /\ G.sess[nets[n].cid] THEN 1 ELSE 0),
            !.dirtyClean = @ \/ \E n \in Nets : /\ ~nets[n].held /\ nets'[n].held /\ nets[n].clean
                                                 /\ LET c == R'.conns[nets'[n].id] IN c.subs # {} \/ c.reqs # <<>> \/ Len(c.acks) # 1,
            !.owed = [n \in Nets |-> IF failed(n) THEN G.owed[n] ELSE rem(n)],
            \* ---- C17
            !.shstart = [f \in SharedFilters |-> ShStart(f)],
            !.shset = [f \in SharedFilters |->
                            IF LiveMembers(R', f) = {} \/ Restarted(f) THEN {}
                            ELSE (G.shset[f] \ ShBack(f)) \cup UNION {SeqToSet(newFwd(c, f)) : c \in CIDs}],
            !.shlast = [f \in SharedFilters |-> [c \in CIDs |->
                            IF LiveMembers(R', f) = {} \/ Restarted(f) THEN 0
                            ELSE LET ps == ShFirstPos(f, newFwd(c, f)) IN IF ps = <<>> THEN G.shlast[f][c] ELSE ps[Len(ps)]]],
            !.shDupAny = @ \/ \E f \in SharedFilters : ~(LiveMembers(R', f) = {} \/ Restarted(f)) /\ \E c \in CIDs :
                             LET nf == newFwd(c, f) IN
                             \/ \E i \in 1..Len(nf) : nf[i] \in G.shset[f] \ ShBack(f)
                             \/ \E i, j \in 1..Len(nf) : i # j /\ nf[i] = nf[j],
            !.shDup = @ \/ \E f \in SharedFilters : ~(LiveMembers(R', f) = {} \/ Restarted(f)) /\ \E c \in CIDs :
                             LET nf == newFwd(c, f) IN
                             \/ \E i \in 1..Len(nf) : nf[i] \in G.shset[f] \ ShBack(f) /\ nf[i] \notin ShKnown(f)
                             \/ \E i, j \in 1..Len(nf) : i # j /\ nf[i] = nf[j] /\ nf[i] \notin ShKnown(f),
            !.shBadOrder = @ \/ \E f \in SharedFilters : ~(LiveMembers(R', f) = {} \/ Restarted(f)) /\ \E c \in CIDs :
                             LET ps == ShFirstPos(f, newFwd(c, f)) IN
                             /\ ps # <<>>
                             /\ (ps[1] <= G.shlast[f][c] \/ \E i \in 1..(Len(ps) - 1) : ps[i + 1] <= ps[i]),
            !.shNotOwed = @ \/ \E f \in SharedFilters : \E c \in CIDs : \E i \in 1..Len(newFwd(c, f)) :
                             ShStart(f) < 0 \/ PosIn(R', Base(f), newFwd(c, f)[i]) <= ShStart(f),
            !.shredo = [f \in SharedFilters |-> IF LiveMembers(R', f) = {} \/ Restarted(f) THEN {} ELSE ShRedo(f)],
            !.shknown = [f \in SharedFilters |-> IF LiveMembers(R', f) = {} \/ Restarted(f) THEN {} ELSE ShKnown(f)],
            !.shever = [f \in SharedFilters |->
                            IF LiveMembers(R', f) = {} \/ Restarted(f) THEN {}
                            ELSE G.shever[f] \cup UNION {SeqToSet(newFwd(c, f)) : c \in CIDs}]]

---------------------------------------------------------------------------
(*                               router thread                             *)

REvent ==
    /\ chan # <<>> /\ ~R.panicked
    /\ chan' = Tail(chan)
    /\ LET e == Head(chan)
           s == St([R EXCEPT !.unsubNow = {}], nets)
           results == CASE e.kind = "Connect"     -> {EvConnect(s, e.arg)}
                        [] e.kind = "DeviceData"  -> EvDeviceData(s, e.id)
                        [] e.kind = "Disconnect"  -> {EvDisconnect(s, e.id)}
                        [] e.kind = "Ready"       -> {EvReady(s, e.id)}
                        [] e.kind = "PublishWill" -> EvPublishWill(s, e.arg)
       IN  \E x \in results : R' = x.r /\ nets' = x.nets
    /\ GhostRouterStep

RConsume ==
    /\ R.readyq # <<>> /\ ~R.panicked
    /\ \E x \in Consume(St([R EXCEPT !.unsubNow = {}], nets)) : R' = x.r /\ nets' = x.nets
    /\ UNCHANGED chan
    /\ GhostRouterStep

---------------------------------------------------------------------------
(*                                  links                                  *)

\* LinkBuilder::build, first half: the connect event is queued
NConnect(n) ==
    /\ nets[n].phase = "idle"
    /\ nets' = [nets EXCEPT ![n].phase = "connecting"]
    /\ chan' = Append(chan, Ev("Connect", 0, n, n))
    /\ UNCHANGED <<R, G>>

\* second half: the doorbell rang, the CONNACK is taken out of the buffer; or the router dropped the event
NFinish(n) ==
    /\ nets[n].phase = "connecting"
    /\ \/ /\ nets[n].tokens > 0 /\ nets[n].obuf # <<>>
          /\ nets' = [nets EXCEPT ![n].phase = "up", ![n].tokens = @ - 1, ![n].obuf = Tail(@)]
       \/ /\ ~nets[n].held /\ nets[n].tokens = 0
          /\ \A i \in 1..Len(chan) : ~(chan[i].kind = "Connect" /\ chan[i].arg = n)      \* the event was handled (dropped)
          /\ nets' = [nets EXCEPT ![n].phase = "closed"]
    /\ UNCHANGED <<R, chan, G>>

Push(n, p) ==
    /\ nets[n].phase = "up"
    /\ nets' = [nets EXCEPT ![n].ibuf = Append(@, p)]
    /\ chan' = Append(chan, Ev("DeviceData", nets[n].id, 0, n))
    /\ UNCHANGED R

\* the link takes everything out of the outgoing buffer (all tokens); Ready if an Unschedule was inside
NDrain(n) ==
    /\ nets[n].phase = "up" /\ nets[n].tokens > 0
    /\ LET out == nets[n].obuf
           fw == SelectSeq(out, LAMBDA x : x.t = "forward" /\ x.q > 0)
           rel == SelectSeq(out, LAMBDA x : x.t = "ack" /\ x.kind = "pubrel")
       IN
       /\ nets' = [nets EXCEPT ![n].obuf = <<>>, ![n].tokens = 0]
       /\ chan' = IF \E i \in 1..Len(out) : out[i].t = "unschedule" THEN Append(chan, Ev("Ready", nets[n].id, 0, n)) ELSE chan
       /\ G' = [G EXCEPT !.toAck[n] = @ \o [i \in 1..Len(fw) |-> <<fw[i].id, fw[i].q>>],
                         !.toComp[n] = @ \o [i \in 1..Len(rel) |-> rel[i].id]]
    /\ UNCHANGED R

\* the link task ends (peer closed, keep-alive, protocol error): Disconnect event unless the router dropped it first
NClose(n) ==
    /\ nets[n].phase = "up" /\ G.nclose < MaxCloses
    /\ nets' = [nets EXCEPT ![n].phase = "closed"]        \* the link (and its doorbell receiver) is dropped: no further rings
    /\ chan' = Append(chan, Ev("Disconnect", nets[n].id, 0, n))
    /\ G' = [G EXCEPT !.nclose = @ + 1, !.toAck[n] = <<>>, !.toComp[n] = <<>>, !.toRel[n] = <<>>]
    /\ UNCHANGED R

\* after the will delay the link asks for the will to be published
NWill(n) ==
    /\ nets[n].phase = "closed"
    /\ nets' = [nets EXCEPT ![n].phase = "done"]
    /\ chan' = Append(chan, Ev("PublishWill", nets[n].id, nets[n].cid, n))
    /\ UNCHANGED <<R, G>>

---------------------------------------------------------------------------
(*                                 clients                                 *)

NextPk(n) == G.cpk[n] + 1

\* replies the broker owes for a packet it accepts
Owes(p) == CASE p.t = "publish" /\ p.msg.q = 1 -> << <<"puback", p.id>> >>
             [] p.t = "publish" /\ p.msg.q = 2 -> << <<"pubrec", p.id>> >>
             [] p.t = "subscribe"   -> << <<"suback", p.id>> >>
             [] p.t = "unsubscribe" -> << <<"unsuback", p.id>> >>
             [] p.t = "pubrel"      -> << <<"pubcomp", p.id>> >>
             [] p.t = "pingreq"     -> << <<"pingresp", 0>> >>
             [] OTHER -> <<>>

CSubscribe(n) ==
    /\ n \in Subscribers /\ G.nsub < MaxSubOps
    /\ \E f \in SubFilters, q \in SubQoS :
         /\ Push(n, PSub(NextPk(n), << <<f, q>> >>))
         /\ G' = [G EXCEPT !.nsub = @ + 1, !.cpk[n] = NextPk(n), !.owed[n] = Append(@, <<"suback", NextPk(n)>>)]

CUnsubscribe(n) ==
    /\ EnUnsub /\ n \in Subscribers /\ G.nsub < MaxSubOps
    /\ \E f \in SubFilters :
         /\ Push(n, PUnsub(NextPk(n), << <<f, 0>> >>))
         /\ G' = [G EXCEPT !.nsub = @ + 1, !.cpk[n] = NextPk(n),
                           !.owed[n] = Append(@, <<"unsuback", NextPk(n)>>)]

CPublish(n) ==
    /\ n \in Publishers /\ G.npub < MaxPub
    /\ \E t \in Topics, q \in PubQoS, rt \in PubRetain, em \in PubEmpty :
         LET msg == Msg(IF em THEN 0 ELSE G.npub + 1, t, q, rt, em)     \* the id is the payload; an empty payload carries none
             pk == IF q = 0 THEN 0 ELSE NextPk(n)
         IN
         /\ Push(n, PPublish(msg, pk))
         /\ G' = [G EXCEPT !.npub = @ + 1, !.cpk[n] = IF q = 0 THEN @ ELSE pk,
                           !.owed[n] = IF q = 0 THEN @ ELSE Append(@, <<IF q = 1 THEN "puback" ELSE "pubrec", pk>>),
                           !.toRel[n] = IF q = 2 THEN Append(@, pk) ELSE @]

\* the publisher releases its oldest unreleased QoS 2 publish
CRelease(n) ==
    /\ G.toRel[n] # <<>>
    /\ Push(n, PAck("pubrel", Head(G.toRel[n])))
    /\ G' = [G EXCEPT !.toRel[n] = Tail(@), !.owed[n] = Append(@, <<"pubcomp", Head(G.toRel[n])>>)]

\* the subscriber acknowledges the oldest forward it has received
CAck(n) ==
    /\ G.toAck[n] # <<>>
    /\ LET e == Head(G.toAck[n]) IN
       /\ Push(n, PAck(IF e[2] = 1 THEN "puback" ELSE "pubrec", e[1]))
       /\ G' = [G EXCEPT !.toAck[n] = Tail(@)]

CComp(n) ==
    /\ G.toComp[n] # <<>>
    /\ Push(n, PAck("pubcomp", Head(G.toComp[n])))
    /\ G' = [G EXCEPT !.toComp[n] = Tail(@)]

CPing(n) ==
    /\ EnPing /\ G.nsub < MaxSubOps
    /\ Push(n, PPing)
    /\ G' = [G EXCEPT !.nsub = @ + 1, !.owed[n] = Append(@, <<"pingresp", 0>>)]

CDisconnect(n) ==
    /\ EnDisconnect /\ G.nclose < MaxCloses
    /\ Push(n, PDisc)
    /\ G' = [G EXCEPT !.nclose = @ + 1]

\* an adversary acknowledges with an arbitrary id
CBadAck(n) ==
    /\ n \in Adversaries /\ G.nsub < MaxSubOps
    /\ \E k \in {"puback", "pubrec", "pubcomp", "pubrel"}, id \in 0..2 :
         Push(n, PAck(k, id))
    /\ G' = [G EXCEPT !.nsub = @ + 1]

\* C03/C14: an event for an arbitrary id reaches the router (a late signal of an ended connection, or a misuse of the
\* link API): Ready, Disconnect and DeviceData for live, removed and never-registered ids
RawEvent ==
    /\ EnStale /\ G.nsub < MaxSubOps
    /\ \E k \in {"Ready", "Disconnect", "DeviceData"}, id \in 0..MaxConn :
         chan' = Append(chan, Ev(k, id, 0, "raw"))
    /\ G' = [G EXCEPT !.nsub = @ + 1]
    /\ UNCHANGED <<R, nets>>

Client(n) == CSubscribe(n) \/ CUnsubscribe(n) \/ CPublish(n) \/ CRelease(n) \/ CAck(n) \/ CComp(n) \/ CPing(n)
                \/ CDisconnect(n) \/ CBadAck(n)
Link(n) == NConnect(n) \/ NFinish(n) \/ NDrain(n) \/ NClose(n) \/ NWill(n)

Next == REvent \/ RConsume \/ RawEvent \/ \E n \in Nets : Link(n) \/ Client(n)
Spec == Init /\ [][Next]_vars

---------------------------------------------------------------------------
(*                                properties                               *)

NoPanic == ~R.panicked

LiveIds == {i \in Ids : R.conns[i].live}

\* the five slabs stay aligned and the bookkeeping maps agree with them
SlabsAligned ==
    /\ \A c \in CIDs : R.connMap[c] >= 0 => (Live(R, R.connMap[c]) /\ R.conns[R.connMap[c]].cid = c)
    /\ \A i \in LiveIds : R.connMap[R.conns[i].cid] = i                   \* one live connection per client id
    /\ Cardinality(LiveIds) <= MaxConn
    /\ \A i \in 1..Len(R.free) : ~Live(R, R.free[i])

\* subscription_map and the connections' own subscription sets agree
SubMapConsistent ==
    \A i \in LiveIds : \A f \in Filters : (f \in R.conns[i].subs) <=> (i \in R.subMap[f])

\* a live id is in the ready queue exactly when its tracker is Ready, and at most once
ReadyqSound ==
    \A i \in LiveIds :
        LET occ == Cardinality({k \in 1..Len(R.readyq) : R.readyq[k] = i}) IN
        IF R.conns[i].status = "Ready" THEN occ >= 1 ELSE TRUE

\* every subscription of a session has exactly one data request somewhere
NoLostRequest ==
    \A c \in CIDs : \A f \in Filters \ SharedFilters :
        Len(ReqsFor(R, c, f)) = (IF f \in SubsOf(R, c) THEN 1 ELSE 0)

\* C01: what was forwarded for a subscription is exactly the log between its start and its cursor, in order
LogMs(f, a, b) == [i \in 1..(b - a) |-> R.logs[f][a + i].m]
DeliveredExactly ==
    \A c \in CIDs : \A f \in SubsOf(R, c) \ SharedFilters :
        LET k == ReqCursor(R, c, f) st == G.start[c][f] IN
        (k >= 0 /\ st >= 0) => (k >= st /\ k <= Len(R.logs[f]) /\ G.fwd[c][f] = LogMs(f, st, k))
NoSpurious == ~G.spurious

\* C06
AcksInOrder == ~G.badAck

\* C15
RetainedRules == ~G.badRet

\* C16
WillAtMostOnce == \A c \in CIDs : G.willCount[c] <= 1
WillNeverAfterDisconnect == \A c \in CIDs : G.discHandled[c] => G.willCount[c] = 0
\* the link of a connection with a will has ended, asked for the will, and the router has handled everything: the will
\* was published unless the client's DISCONNECT was handled first (takeover of the client id is outside the claim)
WillPublishedWhenDue ==
    (chan = <<>>) =>
        \A n \in Nets : (nets[n].phase = "done" /\ nets[n].will # NOMSG /\ Cardinality({x \in Nets : nets[x].cid = nets[n].cid /\ nets[x].phase # "idle"}) = 1)
                            => (G.willCount[nets[n].cid] = (IF G.discHandled[nets[n].cid] THEN 0 ELSE 1))

\* C08
SessionPresentRule == ~G.badSp
CleanStartsEmpty == ~G.dirtyClean

\* C09
WindowBound == \A i \in LiveIds : Len(R.conns[i].inflight) <= MaxInflight
UniqueInflightIds == \A i \in LiveIds : \A a, b \in 1..Len(R.conns[i].inflight) :
                        a # b => R.conns[i].inflight[a][1] # R.conns[i].inflight[b][1]
InflightIdsValid == \A i \in LiveIds : \A a \in 1..Len(R.conns[i].inflight) :
                        R.conns[i].inflight[a][1] \in 1..MaxInflight

\* the link is always told about data in its buffer
DoorbellSound == \A n \in Nets : (nets[n].obuf # <<>> /\ nets[n].held) => nets[n].tokens > 0

\* C09 / C14: a step of the router removes (or replaces) a connection only on behalf of that connection's own link
\* (its packets, its Disconnect) or of a new connection with the same client id
Gone(i) == R.conns[i].live /\ (~R'.conns[i].live \/ R'.conns[i].net # R.conns[i].net)
OnlyOwnRemovalStep ==
    \A i \in Ids : Gone(i) =>
          /\ chan # <<>> /\ chan' = Tail(chan)
          /\ LET e == Head(chan) IN
             \/ (e.kind \in {"DeviceData", "Disconnect"} /\ e.id = i /\ e.src = R.conns[i].net)
             \/ (e.kind = "Connect" /\ nets[e.arg].cid = R.conns[i].cid)
OnlyOwnRemoval == [][OnlyOwnRemovalStep]_vars
\* C09: handling the packets of one connection (e.g. an acknowledgement nobody solicited) closes at most that connection
AckClosesOnlyThatStep ==
    \A i \in Ids : (Gone(i) /\ chan # <<>> /\ Head(chan).kind = "DeviceData") => Head(chan).id = i
AckClosesOnlyThat == [][AckClosesOnlyThatStep]_vars
\* C14: an event sent by the link of a connection that has ended never acts on a later connection.
\* kinds: the event kinds for which this is demanded
NoCrossGenerationStep(kinds) ==
    \A i \in Ids : (Gone(i) /\ chan # <<>> /\ Head(chan).kind \in kinds) => Head(chan).src = R.conns[i].net
NoCrossGeneration == [][NoCrossGenerationStep({"DeviceData", "Disconnect", "Ready", "PublishWill"})]_vars
\* known finding (C14): a late Event::Disconnect of an ended connection removes the connection that reuses its id.
\* (A late DeviceData only makes the router look into the new connection's own buffer earlier: whatever then happens is
\* caused by that connection's own packets, so DeviceData is not part of the demand.)
NoCrossGenerationButDisconnect == [][NoCrossGenerationStep({"Ready", "PublishWill"})]_vars

\* nothing can happen any more without a new stimulus from a client
RouterIdle == chan = <<>> /\ (\A k \in 1..Len(R.readyq) : ~Live(R, R.readyq[k]))
ClientsDone == \A n \in Nets : nets[n].phase = "up" =>
                  (nets[n].tokens = 0 /\ nets[n].obuf = <<>> /\ nets[n].ibuf = <<>>
                   /\ G.toAck[n] = <<>> /\ G.toComp[n] = <<>> /\ G.toRel[n] = <<>>)
Quiescent == RouterIdle /\ ClientsDone /\ ~R.panicked
\* C01 C06 C09 "no further stimulus" clauses: at quiescence nothing is undelivered and no reply is owed
QuiescentComplete ==
    Quiescent =>
        /\ \A i \in LiveIds : \A f \in R.conns[i].subs \ SharedFilters :
               nets[R.conns[i].net].phase = "up" => ReqCursor(R, R.conns[i].cid, f) = Len(R.logs[f])
        /\ \A n \in Nets : (nets[n].phase = "up" /\ nets[n].held) => G.owed[n] = <<>>

---------------------------------------------------------------------------
(* C17: shared subscriptions. A message appended to the log of the base filter while the group (the clients with a live     *)
(* connection subscribed to the shared path) is non-empty is owed to exactly one member.                                    *)
\* at most one member, never twice (a forward that a member's connection took down unacknowledged may be made again)
SharedAtMostOnce == ~G.shDupAny
\* the same, leaving out the duplicates of the known finding (messages behind a group cursor that was set back)
SharedAtMostOnceButRewind == ~G.shDup
\* each member sees its share in acceptance order (forwards made again for a connection that ended are redeliveries)
SharedMemberOrder == ~G.shBadOrder
\* only messages accepted while the group existed
SharedOnlyOwed == ~G.shNotOwed
\* the router can do nothing more on its own: no event is queued and a scheduling turn of any ready connection changes
\* nothing (a member whose turn it is not stays in the ready queue and is polled again and again)
Rot(q, k) == SubSeq(q, k + 1, Len(q)) \o SubSeq(q, 1, k)
ConsumeNoop(r) == \A x \in Consume(St(r, nets)) : x.nets = nets /\ [x.r EXCEPT !.readyq = <<>>] = [r EXCEPT !.readyq = <<>>]
RouterStill == chan = <<>> /\ \A k \in 0..(Len(R.readyq) - 1) : ConsumeNoop([R EXCEPT !.readyq = Rot(R.readyq, k)])
\* publishers have stopped, members have acknowledged, the router is still: every message accepted while the group was
\* non-empty has been forwarded to some member
SharedComplete ==
    (RouterStill /\ ClientsDone /\ ~R.panicked) =>
        \A f \in SharedFilters :
            (G.shstart[f] >= 0 /\ \A c \in LiveMembers(R, f) : nets[ConnNet(R, c)].phase = "up") =>
                \A i \in (G.shstart[f] + 1)..Len(R.logs[Base(f)]) : R.logs[Base(f)][i].m \in G.shever[f]
=============================================================================
