--------------------------- MODULE ClientLoopTrace ---------------------------
(* Trace validation (impl -> spec) for the real rumqttc EventLoop: every line      *)
(* recorded by the harness (client_loop) must be explained by an action of         *)
(* ClientLoop.tla with the logged outputs (events handed to the user, packets      *)
(* that reached the broker, error) and the logged state projection (pending,       *)
(* inflight(), collision, ping flags).  Which branch of select! ran, and how many  *)
(* packets a network batch took, is inferred by TLC.  All invariants of            *)
(* ClientLoop are evaluated in every state of the trace.                           *)
EXTENDS ClientLoop, Json, IOUtils

Rec == ndJsonDeserialize(IOEnv.TRACE)

\* Strict = TRUE: every step must also reproduce the public state of the client logged after it (EventLoop::pending,
\* MqttState::inflight(), collision, ping flags).  Strict = FALSE (second stage, only after a strict rejection): only the
\* outputs (events handed to the user, packets that reached the broker, errors) must be explained; TLC infers the state.
CONSTANT Strict
VARIABLES l,        \* next line of the trace
          dropped   \* the broker end of the current connection has been closed (not yet noticed by the client)
tvars == <<vars, l, dropped>>

E == Rec[l]
IsEvent(e) == l <= Len(Rec) /\ E.ev = e /\ l' = l + 1

TraceInit == Init /\ l = 1 /\ dropped = FALSE

TReset ==
    /\ IsEvent("reset")
    /\ s' = InitState /\ pending' = <<>> /\ chan' = <<>> /\ up' = FALSE /\ inbuf' = <<>>
    /\ nmsg' = 0 /\ nfail' = 0 /\ nbroker' = 0 /\ step' = NoStep
    /\ live' = {} /\ liveRel' = {} /\ unacked' = {} /\ sentOrder' = <<>> /\ carried' = <<>> /\ classOk' = TRUE
    /\ resumed' = FALSE /\ dupWrite' = FALSE /\ dropped' = FALSE

VisMatch == Strict =>
    /\ pending' = E.pending
    /\ s'.inflight = E.vis.inflight
    /\ s'.collision = E.vis.collision
    /\ s'.awaitPing = E.vis.awaitPing
    /\ s'.collPing = E.vis.collPing

TConnect ==
    /\ IsEvent("connect")
    /\ E.err = "none"
    /\ Connect
    /\ resumed' = E.sp
    /\ VisMatch
    /\ dropped' = FALSE

TUser ==
    /\ IsEvent("user")
    /\ chan' = IF E.ok THEN Append(chan, E.pk) ELSE chan
    /\ step' = NoStep
    /\ UNCHANGED <<s, pending, up, inbuf, nmsg, nfail, nbroker, live, liveRel, unacked, sentOrder, carried, classOk,
                   resumed, dupWrite, dropped>>

TBroker ==
    /\ IsEvent("broker")
    /\ inbuf' = IF E.ok /\ up
                  THEN Append(inbuf, IF E.pk.t = "publish" /\ E.pk.q = 0 THEN [E.pk EXCEPT !.id = 0] ELSE E.pk)  \* QoS 0: no id on the wire
                  ELSE inbuf
    /\ step' = NoStep
    /\ UNCHANGED <<s, pending, chan, up, nmsg, nfail, nbroker, live, liveRel, unacked, sentOrder, carried, classOk,
                   resumed, dupWrite, dropped>>

TFail ==
    /\ IsEvent("fail")
    /\ dropped' = TRUE
    /\ UNCHANGED vars

StateErrors == {"Unsolicited", "CollisionTimeout", "AwaitPingResp", "WrongPacket", "ServerDisconnect"}

TStep ==
    /\ IsEvent("step")
    /\ IF E.err = "none"
         THEN /\ (PollRequest \/ PollNetwork \/ Keepalive)
              /\ step'.err = NONE /\ step'.wr = E.wire
              /\ UNCHANGED dropped
         ELSE IF E.err \in StateErrors
           THEN /\ (PollRequest \/ PollNetwork \/ Keepalive)
                /\ step'.err = E.err
                /\ dropped' = FALSE
           ELSE /\ E.err = "lost" /\ dropped
                /\ (PollRequestX(TRUE) \/ PollNetworkX(TRUE) \/ KeepaliveX(TRUE))
                /\ step'.err \in {"Io", "ConnectionAborted"}
                /\ dropped' = FALSE
    /\ step'.ev = E.evs
    /\ VisMatch

TraceNext == TReset \/ TConnect \/ TUser \/ TBroker \/ TFail \/ TStep
TraceSpec == TraceInit /\ [][TraceNext]_tvars

\* longest matched prefix (the trace spec may branch: track the maximum, -workers 1)
Progress == TLCSet(1, IF TLCGet(1) < l THEN l ELSE TLCGet(1))
ASSUME TLCSet(1, 0)

TraceAccepted ==
    LET d == TLCGet(1) IN
    IF d - 1 = Len(Rec) THEN TRUE
    ELSE Print(<<"TRACE-REJECTED at line", d, IF d <= Len(Rec) THEN Rec[d] ELSE "eof">>, FALSE)
=============================================================================
