------------------------------ MODULE Keepalive ------------------------------
(***************************************************************************)
(* rumqttc keep-alive and connect timeout (C18) in discrete time.          *)
(*                                                                         *)
(* One tick is 1/K of the keep-alive interval.  The event loop arms one    *)
(* timer when the connection is established (not at all when the          *)
(* keep-alive is zero, v4); when it fires it is re-armed K ticks later and *)
(* a PINGREQ is sent, unless the previous one is still unanswered: then    *)
(* the connection is reported as failed (AwaitPingResp).  Other traffic    *)
(* does not touch the timer.  The broker answers each ping after a delay   *)
(* of its choice, or never.  A reply that arrives in the very tick in      *)
(* which the timer fires may be seen before or after the timer (select!    *)
(* picks at random): both are allowed.                                     *)
(*                                                                         *)
(* K is the keep-alive *in force*: the client's own option, or - MQTT 5 -  *)
(* the Server Keep Alive of the CONNACK, which replaces it (0 turns the    *)
(* keep-alive off; values below the 5 s the v5 options insist on are       *)
(* possible this way).                                                     *)
(*                                                                         *)
(* A connect that gets no CONNACK is reported as a timeout exactly         *)
(* ConnTimeout ticks after it started.                                     *)
(***************************************************************************)
EXTENDS Integers, Sequences, FiniteSets

CONSTANTS K,            \* ticks per keep-alive interval (0 = keep-alive disabled, v4 only)
          Horizon,      \* ticks explored
          MaxDelay,     \* largest reply delay the broker may choose
          ConnTimeout,  \* connection timeout in ticks
          MaxConns      \* connections one event loop makes in a behaviour (after a reported failure it connects again)

NEVER == 1000

VARIABLES
    now,        \* current tick
    phase,      \* "connecting" | "up" | "failed" | "timedout"
    since,      \* tick at which the current phase began
    deadline,   \* tick at which the keep-alive timer fires next (NEVER if not armed)
    await,      \* a PINGREQ is unanswered (MqttState.await_pingresp)
    due,        \* tick at which the reply to the outstanding ping arrives (NEVER = never)
    stall,      \* the broker does not answer the CONNECT
    \* per-tick outputs
    ping,       \* a PINGREQ was sent in this tick
    failed,     \* the connection was reported failed in this tick
    \* ghosts
    lastPing,   \* tick of the last PINGREQ (or of the connection start)
    lateReply,  \* some reply was (or will be) later than one interval, or never
    silentFrom, \* tick of the first ping that the broker never answers (NEVER if none so far)
    nconn       \* connections made so far

vars == <<now, phase, since, deadline, await, due, stall, ping, failed, lastPing, lateReply, silentFrom, nconn>>

Init ==
    /\ now = 0 /\ phase = "connecting" /\ since = 0 /\ deadline = NEVER /\ await = FALSE /\ due = NEVER
    /\ stall \in BOOLEAN
    /\ ping = FALSE /\ failed = FALSE /\ lastPing = 0 /\ lateReply = FALSE /\ silentFrom = NEVER /\ nconn = 1

\* the CONNACK arrives (in the tick the connect started: the scripted broker answers at once) and the timer is armed
Connected ==
    /\ phase = "connecting" /\ ~stall
    /\ phase' = "up" /\ since' = now /\ lastPing' = now
    /\ deadline' = IF K = 0 THEN NEVER ELSE now + K
    /\ UNCHANGED <<now, await, due, stall, ping, failed, lateReply, silentFrom, nconn>>

\* after a reported keep-alive failure the same event loop connects again: EventLoop::clean / MqttState::clean forget the
\* outstanding ping, the timer is armed afresh by the new connection; what the old connection's broker did is history
Reconnect ==
    /\ phase = "failed" /\ nconn < MaxConns
    /\ phase' = "connecting" /\ since' = now /\ deadline' = NEVER /\ await' = FALSE /\ due' = NEVER /\ stall' = FALSE
    /\ ping' = FALSE /\ failed' = FALSE /\ lastPing' = now /\ lateReply' = FALSE /\ silentFrom' = NEVER
    /\ nconn' = nconn + 1
    /\ UNCHANGED now

\* one tick of time passes; what becomes due in the new tick happens in it
Tick ==
    /\ now < Horizon /\ phase \in {"up", "connecting"}
    /\ (phase = "connecting" => stall)
    /\ now' = now + 1
    /\ IF phase = "connecting"
         THEN \* handshake stalled: timeout exactly at ConnTimeout
              /\ phase' = IF now + 1 - since >= ConnTimeout THEN "timedout" ELSE "connecting"
              /\ failed' = (now + 1 - since >= ConnTimeout)
              /\ UNCHANGED <<since, deadline, await, due, stall, ping, lastPing, lateReply, silentFrom, nconn>>
         ELSE LET t == now + 1
                  fires == deadline = t
                  replyNow == due = t
              IN  \* order of reply and timer inside one tick is free
                  \E replyFirst \in BOOLEAN :
                    LET awT == IF replyNow /\ replyFirst THEN FALSE ELSE await      \* what the timer branch sees
                        fail == fires /\ awT
                        sends == fires /\ ~awT
                    IN
                    /\ failed' = fail
                    /\ ping' = sends
                    /\ phase' = IF fail THEN "failed" ELSE "up"
                    /\ deadline' = IF fires THEN t + K ELSE deadline
                    /\ lastPing' = IF sends THEN t ELSE lastPing
                    /\ IF sends
                         THEN \E d \in (0..MaxDelay) \cup {NEVER} :
                                \* delay 0: the reply is read within the same tick
                                /\ await' = (d # 0)
                                /\ due' = IF d = NEVER \/ d = 0 THEN NEVER ELSE t + d
                                /\ lateReply' = (lateReply \/ d >= K)
                                /\ silentFrom' = IF d = NEVER /\ silentFrom = NEVER THEN t ELSE silentFrom
                         ELSE /\ due' = IF replyNow THEN NEVER ELSE due
                              /\ await' = IF replyNow THEN FALSE ELSE await
                              /\ UNCHANGED <<lateReply, silentFrom>>
                    /\ UNCHANGED <<since, stall, nconn>>

Next == Connected \/ Tick \/ Reconnect
Spec == Init /\ [][Next]_vars

---------------------------------------------------------------------------
\* a PINGREQ at least once per keep-alive interval while the connection is up
PingEveryInterval == (phase = "up" /\ K > 0) => now - lastPing <= K
\* keep-alive zero: never a ping
NoPingWhenDisabled == K = 0 => ~ping
\* a silent broker is noticed no later than the second interval after it stopped answering
SilentDetected == (phase = "up" /\ silentFrom # NEVER /\ K > 0) => now < silentFrom + K + 1
\* never a keep-alive failure while every reply came within the interval
NoFalseAlarm == (phase = "failed") => lateReply
\* a stalled handshake is reported as a timeout at the configured time, not before
TimeoutOnTime == /\ (phase = "timedout") => (now - since = ConnTimeout)
                 /\ (phase = "connecting" /\ stall) => (now - since < ConnTimeout)
=============================================================================
