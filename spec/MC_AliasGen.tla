----------------------------- MODULE MC_AliasGen -----------------------------
(* Stimulus scripts for the `aliases` harness: simulation of Alias.tla with the stimuli recorded. *)
EXTENDS MC_Alias
CONSTANT EmitAt
VARIABLE stim
GenInit == Init /\ stim = <<>>
GenNext ==
    \/ \E t \in Topics, a \in PubAliases, full \in BOOLEAN :
          Pub(t, a, full) /\ stim' = Append(stim, [op |-> "pub", topic |-> t, alias |-> a, full |-> full, f |-> "none"])
    \/ \E f \in Filters : Sub(f) /\ stim' = Append(stim, [op |-> "sub", topic |-> "none", alias |-> 0, full |-> FALSE, f |-> f])
    \/ \E f \in Filters : Unsub(f) /\ stim' = Append(stim, [op |-> "unsub", topic |-> "none", alias |-> 0, full |-> FALSE, f |-> f])
    \/ Sync /\ stim' = Append(stim, [op |-> "sync", topic |-> "none", alias |-> 0, full |-> FALSE, f |-> "none"])
    \/ Reconnect /\ stim' = Append(stim, [op |-> "reconnect", topic |-> "none", alias |-> 0, full |-> FALSE, f |-> "none"])
GenSpec == GenInit /\ [][GenNext]_<<vars, stim>>
EmitScript == (TLCGet("level") = EmitAt) => PrintT(<<"SCRIPT", ToJson(stim)>>)
=============================================================================
