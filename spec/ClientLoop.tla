------------------------------ MODULE ClientLoop ------------------------------
(***************************************************************************)
(* rumqttc EventLoop (eventloop.rs / v5/eventloop.rs) around MqttState:    *)
(* the request channel, `pending`, the gate of the request branch of       *)
(* select!, batched network reads, keep-alive pings, failure anywhere      *)
(* (EventLoop::clean) and reconnect with or without a session.             *)
(*                                                                         *)
(* The environment is a user issuing publishes/subscribes and an           *)
(* adversarial broker that may send any packet with any id at any time.    *)
(* Ghost variables record what the properties C02 C07 C10 C11 talk about.  *)
(***************************************************************************)
EXTENDS ClientState, TLC

CONSTANTS MaxMsgs,      \* user publishes per behaviour
          ChanCap,      \* request channel capacity
          MaxFails,     \* connection failures per behaviour
          MaxBroker,    \* broker packets per behaviour
          QoSs,         \* QoS levels the user publishes with
          Subs,         \* BOOLEAN: the user also subscribes
          GateFix       \* BOOLEAN: request branch repaired not to take from `pending` while a collision is unresolved

VARIABLES
    s,          \* MqttState
    pending,    \* EventLoop.pending
    chan,       \* request channel (user -> event loop)
    up,         \* network is Some
    inbuf,      \* packets sent by the broker, not yet read
    nmsg, nfail, nbroker,
    \* ---- per-step outputs (overwritten by every step)
    step,       \* [kind, batch, wr, ev, err, src]
    \* ---- ghosts
    live,       \* message ids accepted by the event loop, QoS>0, no final ack yet, publish phase
    liveRel,    \* packet ids of QoS 2 messages whose release is owed (PUBREC seen, no PUBCOMP)
    unacked,    \* ids of publishes written on this connection and not yet answered by PUBACK/PUBREC
    sentOrder,  \* message ids in the order of their first transmission (still live)
    carried,    \* requests carried over by the last failure, not yet re-sent on the resumed session
    classOk,    \* history stays in the class C11's order clause names (QoS 1 publishes only, acks in order)
    resumed,    \* the current connection resumed a session (CONNACK session_present)
    dupWrite    \* a publish was written under an id that another unacknowledged publish of the connection carries

vars == <<s, pending, chan, up, inbuf, nmsg, nfail, nbroker, step, live, liveRel, unacked, sentOrder,
          carried, classOk, resumed, dupWrite>>

\* inflight limit the gate uses (v4: the configured one; v5: state.max_outgoing_inflight)
limit == s.maxOut

NoStep == [kind |-> "none", batch |-> <<>>, wr |-> <<>>, ev |-> <<>>, err |-> NONE, src |-> "none"]

Ids == 0..(N + 1)
BrokerPackets ==
    {Pk(t, id, f, 0) : t \in {"puback", "pubrec", "pubrel", "pubcomp"}, id \in Ids, f \in (IF Version = 5 THEN {0, 1} ELSE {0})}   \* f = 1: failure reason code
      \cup {Pk("publish", IF q = 0 THEN 0 ELSE 1, q, 0) : q \in {0, 1, 2}}     \* a QoS 0 publish carries no id
      \cup {Pk("suback", 1, 0, 0), Pk("pingresp", 0, 0, 0)}

Init ==
    /\ s = InitState /\ pending = <<>> /\ chan = <<>> /\ up = FALSE /\ inbuf = <<>>
    /\ nmsg = 0 /\ nfail = 0 /\ nbroker = 0 /\ step = NoStep
    /\ live = {} /\ liveRel = {} /\ unacked = {} /\ sentOrder = <<>> /\ carried = <<>> /\ classOk = TRUE
    /\ resumed = FALSE /\ dupWrite = FALSE

---------------------------------------------------------------------------
(* ghost bookkeeping for one call result r (packets written r.wr, processed input p or NOPK) *)

RECURSIVE SeqSet(_)
SeqSet(q) == IF q = <<>> THEN {} ELSE {Head(q)} \cup SeqSet(Tail(q))
RECURSIVE Without(_, _)
Without(q, S) == IF q = <<>> THEN <<>> ELSE (IF Head(q) \in S THEN <<>> ELSE <<Head(q)>>) \o Without(Tail(q), S)

WrittenPubs(wr) == {wr[i] : i \in {j \in 1..Len(wr) : wr[j].t = "publish" /\ wr[j].q > 0}}

\* final / intermediate acknowledgements as the client understood them: the message that held id k
AckedMsgs(s0, p, r) ==
    IF r.err = NONE /\ p.t \in {"puback", "pubrec"} /\ p.id <= N /\ s0.outPub[p.id] # NOPK
      THEN {s0.outPub[p.id].m} ELSE {}

---------------------------------------------------------------------------
\* EventLoop::clean.  As pinned the state's unacknowledged work is appended behind what is still pending from an
\* earlier failure; repaired ("clean_order") it goes in front (it was sent before the rest of `pending`).
CarryOver(s0, pend0, chan0) ==
    IF "clean_order" \in Fix
      THEN CleanPending(s0) \o pend0 \o SelectSeq(chan0, LAMBDA x : x.t # "puback")
      ELSE pend0 \o CleanPending(s0) \o SelectSeq(chan0, LAMBDA x : x.t # "puback")
CleanLoop(s0, pend0, chan0) ==
    /\ up' = FALSE
    /\ s' = Clean(s0)
    /\ pending' = CarryOver(s0, pend0, chan0)
    /\ chan' = <<>>
    /\ inbuf' = <<>>
    /\ unacked' = {}
    /\ resumed' = FALSE
    /\ carried' = CarryOver(s0, pend0, chan0)

\* user API: the request is put on the channel
UserRequest ==
    /\ Len(chan) < ChanCap
    /\ \/ /\ nmsg < MaxMsgs
          /\ \E q \in QoSs : chan' = Append(chan, Pk("publish", 0, q, nmsg + 1))
          /\ nmsg' = nmsg + 1
       \/ /\ nmsg < MaxMsgs /\ Subs            \* subscribes consume ids too
          /\ chan' = Append(chan, Pk("subscribe", 0, 0, 0))
          /\ nmsg' = nmsg + 1
    /\ step' = NoStep
    /\ UNCHANGED <<s, pending, up, inbuf, nfail, nbroker, live, liveRel, unacked, sentOrder, carried, classOk, resumed, dupWrite>>

BrokerSend ==
    /\ up /\ nbroker < MaxBroker /\ Len(inbuf) < 2
    /\ \E p \in BrokerPackets : inbuf' = Append(inbuf, p)
    /\ nbroker' = nbroker + 1
    /\ step' = NoStep
    /\ UNCHANGED <<s, pending, chan, up, nmsg, nfail, live, liveRel, unacked, sentOrder, carried, classOk, resumed, dupWrite>>

\* poll() while disconnected: connect, CONNACK
Connect ==
    /\ ~up
    /\ \E sp \in BOOLEAN :
         /\ up' = TRUE
         /\ pending' = IF sp THEN pending ELSE <<>>
         /\ carried' = IF sp THEN carried ELSE <<>>
         /\ resumed' = sp
         /\ live' = IF sp THEN live ELSE {}          \* session gone: the property's proviso
         /\ liveRel' = IF sp THEN liveRel ELSE {}
         /\ sentOrder' = IF sp THEN sentOrder ELSE <<>>
         /\ step' = [NoStep EXCEPT !.kind = "connect", !.src = IF sp THEN "present" ELSE "absent"]
         /\ LET \* repaired ("clean_start_rotation", v4): without a session the rotation point of clean() restarts
                 s1 == IF ~sp /\ Version = 4 /\ "clean_start_rotation" \in Fix
                         THEN [s EXCEPT !.lastPuback = s.lastPkid] ELSE s
            IN  IF Version = 5      \* v5 feeds the CONNACK to the state: receive_max may lower the limit
                  THEN \E rm \in {0, 1, N} : s' = HandleIn(s1, Pk("connack", 0, rm, 0)).s
                  ELSE s' = s1
    /\ UNCHANGED <<chan, inbuf, nmsg, nfail, nbroker, unacked, classOk, dupWrite>>

\* request branch of select!
GateOpen == s.inflight < limit /\ s.collision = NOPK
\* As pinned, `pending` is served whatever the window and the collision say.  Repaired (GateFix): nothing is taken
\* while a collision is unresolved; v5 additionally replays through the window ("replay_window"), because its
\* window (Receive Maximum) can be smaller than the number of packet ids.
RequestEnabled ==
    IF ~GateFix THEN pending # <<>> \/ (GateOpen /\ chan # <<>>)
    ELSE IF Version = 5 /\ "replay_window" \in Fix THEN GateOpen /\ (pending # <<>> \/ chan # <<>>)
    ELSE (s.collision = NOPK /\ pending # <<>>) \/ (GateOpen /\ chan # <<>>)

\* lost = the connection turns out to be broken when the packet is written (the step then ends in clean())
PollRequestX(lost) ==
    /\ up /\ RequestEnabled
    /\ LET fromPending == pending # <<>>
           req == IF fromPending THEN Head(pending) ELSE Head(chan)
           pend1 == IF fromPending THEN Tail(pending) ELSE pending
           chan1 == IF fromPending THEN chan ELSE Tail(chan)
           r == HandleOut(s, req)
           accepted == IF req.t = "publish" /\ req.q > 0 /\ r.err = NONE THEN {req.m} ELSE {}
           firstSent == {p.m : p \in WrittenPubs(r.wr)} \ SeqSet(sentOrder)
       IN
       /\ step' = [kind |-> "request", batch |-> <<req>>, wr |-> r.wr, ev |-> r.ev,
                   err |-> IF r.err # NONE THEN r.err ELSE IF lost THEN "Io" ELSE NONE,
                   src |-> IF fromPending THEN "pending" ELSE "chan"]
       /\ live' = live \cup accepted
       /\ sentOrder' = sentOrder \o SetToSortedSeq(firstSent)
       /\ classOk' = (classOk /\ ~(req.t \in {"subscribe", "unsubscribe"}) /\ ~(req.t = "publish" /\ req.q = 2))
       /\ dupWrite' = (dupWrite \/ (r.err = NONE /\ \E p \in WrittenPubs(r.wr) : p.id \in unacked))
       /\ IF r.err = NONE /\ ~lost
            THEN /\ s' = r.s /\ pending' = pend1 /\ chan' = chan1
                 /\ unacked' = unacked \cup {p.id : p \in WrittenPubs(r.wr)}
                 /\ carried' = IF fromPending /\ carried # <<>> THEN Tail(carried) ELSE carried
                 /\ UNCHANGED <<up, inbuf, resumed>>
            ELSE CleanLoop(r.s, pend1, chan1)
    /\ UNCHANGED <<nmsg, nfail, nbroker, liveRel>>
PollRequest == PollRequestX(FALSE)

\* network branch: a batch of 1..9 packets through readb, replies buffered, one flush
RECURSIVE Batch(_, _, _, _)
\* returns [s, wr, ev, err, done] after feeding packets q[1..] until error
Batch(s0, q, acc, k) ==
    IF q = <<>> \/ k = 0 THEN acc
    ELSE LET r == HandleIn(acc.s, Head(q))
             acc2 == [s |-> r.s, wr |-> acc.wr \o r.wr, ev |-> acc.ev \o r.ev, err |-> r.err,
                      done |-> Append(acc.done, Head(q)),
                      acked |-> acc.acked \cup AckedMsgs(acc.s, Head(q), r),
                      relDone |-> acc.relDone \cup (IF r.err = NONE /\ Head(q).t = "pubcomp" THEN {Head(q).id} ELSE {}),
                      relNew |-> acc.relNew \cup (IF r.err = NONE /\ Head(q).t = "pubrec" /\ ~Failed(Head(q)) THEN {Head(q).id} ELSE {}),
                      ackIds |-> acc.ackIds \cup (IF r.err = NONE /\ Head(q).t \in {"puback", "pubrec"} THEN {Head(q).id} ELSE {}),
                      ooo |-> acc.ooo \/ (r.err # NONE /\ Head(q).t \in {"puback", "pubrec", "pubcomp"})
                                      \/ (r.err = NONE /\ Head(q).t = "pubrec")
                                      \/ (r.err = NONE /\ Head(q).t = "puback"
                                           /\ LET rest == Without(sentOrder, acc.acked) IN
                                              rest = <<>> \/ acc.s.outPub[Head(q).id].m # Head(rest))]
         IN  IF r.err # NONE THEN acc2 ELSE Batch(s0, Tail(q), acc2, k - 1)

\* lost = end of stream right behind the k packets (readb returns ConnectionAborted, replies are not flushed)
PollNetworkX(lost) ==
    /\ up /\ (inbuf # <<>> \/ lost)
    /\ \E k \in (IF lost THEN {Len(inbuf)} ELSE 1..Len(inbuf)) :
         LET b == Batch(s, inbuf, [s |-> s, wr |-> <<>>, ev |-> <<>>, err |-> NONE, done |-> <<>>, acked |-> {},
                                   relDone |-> {}, relNew |-> {}, ackIds |-> {}, ooo |-> FALSE], k)
             firstSent == {p.m : p \in WrittenPubs(b.wr)} \ SeqSet(sentOrder)
         IN
         /\ step' = [kind |-> "network", batch |-> b.done, wr |-> b.wr, ev |-> b.ev,
                     err |-> IF b.err # NONE THEN b.err ELSE IF lost THEN "ConnectionAborted" ELSE NONE, src |-> "net"]
         /\ live' = (live \ b.acked)
         /\ liveRel' = (liveRel \cup b.relNew) \ b.relDone
         /\ sentOrder' = Without(sentOrder, b.acked) \o SetToSortedSeq(firstSent)
         /\ classOk' = (classOk /\ ~b.ooo)
         /\ dupWrite' = (dupWrite \/ (b.err = NONE /\ \E p \in WrittenPubs(b.wr) : p.id \in (unacked \ b.ackIds)))
         /\ IF b.err = NONE /\ ~lost
              THEN /\ s' = b.s
                   /\ inbuf' = SubSeq(inbuf, Len(b.done) + 1, Len(inbuf))
                   /\ unacked' = (unacked \ b.ackIds) \cup {p.id : p \in WrittenPubs(b.wr)}
                   /\ UNCHANGED <<pending, chan, up, resumed, carried>>
              ELSE CleanLoop(b.s, pending, chan)
    /\ UNCHANGED <<nmsg, nfail, nbroker>>
PollNetwork == PollNetworkX(FALSE)

\* keep-alive timer fired
KeepaliveX(lost) ==
    /\ up
    /\ LET r == HandleOut(s, Pk("pingreq", 0, 0, 0)) IN
       /\ step' = [kind |-> "ping", batch |-> <<>>, wr |-> r.wr, ev |-> r.ev,
                   err |-> IF r.err # NONE THEN r.err ELSE IF lost THEN "Io" ELSE NONE, src |-> "timer"]
       /\ IF r.err = NONE /\ ~lost THEN s' = r.s /\ UNCHANGED <<pending, chan, up, inbuf, unacked, resumed, carried>>
                                   ELSE CleanLoop(r.s, pending, chan)
    /\ UNCHANGED <<nmsg, nfail, nbroker, live, liveRel, sentOrder, classOk, dupWrite>>
Keepalive == KeepaliveX(FALSE)

\* the connection fails (peer closed, I/O error, flush timeout) at any moment
Fail ==
    /\ up /\ nfail < MaxFails
    /\ nfail' = nfail + 1
    /\ step' = [NoStep EXCEPT !.kind = "fail"]
    /\ CleanLoop(s, pending, chan)
    /\ UNCHANGED <<nmsg, nbroker, live, liveRel, sentOrder, classOk, dupWrite>>

Next == ~s.panicked /\ (UserRequest \/ BrokerSend \/ Connect \/ PollRequest \/ PollNetwork \/ Keepalive \/ Fail)
Spec == Init /\ [][Next]_vars

---------------------------------------------------------------------------
(*                               properties                                *)

NoPanic == ~s.panicked

\* C02: an accepted QoS>0 publish is in flight or held for retransmission until its final ack
Held == {s.outPub[k].m : k \in Occupied(s)}
           \cup (IF s.collision # NOPK THEN {s.collision.m} ELSE {})
           \cup {pending[i].m : i \in {j \in 1..Len(pending) : pending[j].t = "publish"}}
           \cup {chan[i].m : i \in {j \in 1..Len(chan) : chan[j].t = "publish"}}
NoLoss == live \subseteq Held
RelHeld == s.outRel \cup {pending[i].id : i \in {j \in 1..Len(pending) : pending[j].t = "pubrel"}}
NoLostRelease == liveRel \subseteq RelHeld

\* C07
IdsInRange == \A i \in 1..Len(step.wr) :
                 step.wr[i].t \in {"subscribe", "unsubscribe"} \/ (step.wr[i].t = "publish" /\ step.wr[i].q > 0)
                    => (step.wr[i].id >= 1 /\ step.wr[i].id <= N)     \* the configured limit (v5: the upper limit)
\* no publish is written with an id another unacknowledged publish of this connection carries
UniqueUnackedIds == ~dupWrite
WindowBound == Cardinality(unacked) <= limit
\* the counter the gate looks at is never above the true number of unacknowledged publishes (else the window shrinks)
CountNotAbove == s.inflight <= Cardinality(Occupied(s)) + Cardinality(s.outRel)
\* channel requests are only taken through an open gate
GateRespected == [][(step'.kind = "request" /\ step'.src = "chan") => (s.inflight < limit /\ s.collision = NOPK)]_vars
CollisionResolvable == s.collision # NOPK =>
    \/ s.outPub[s.collision.id] # NOPK
    \/ s.collision.id \in s.outRel
    \/ \E i \in 1..Len(pending) : pending[i].id = s.collision.id /\ pending[i].t \in {"publish", "pubrel"}

\* C10: per step, Incoming events equal the packets processed, in order; every written packet is announced by one
\* Outgoing event of its kind and id, in order, and nothing else is announced (AwaitAck is not a write)
EvIns == SelectSeq(step.ev, LAMBDA e : e.k = "in")
EvOuts == SelectSeq(step.ev, LAMBDA e : e.k = "out" /\ e.t # "awaitack")
IncomingOnceInOrder == step.kind = "network" =>
    /\ Len(EvIns) = Len(step.batch)
    /\ \A i \in 1..Len(EvIns) : EvIns[i].t = step.batch[i].t /\ EvIns[i].id = step.batch[i].id
AnnounceIffWrite ==
    /\ Len(EvOuts) = Len(step.wr)
    /\ \A i \in 1..Len(EvOuts) : EvOuts[i].t = step.wr[i].t /\ EvOuts[i].id = step.wr[i].id

\* C11: on a resumed session nothing the user issued after the failure is sent while carried-over requests remain
ReplayFirst == (step.kind = "request" /\ step.src = "chan" /\ resumed) => carried = <<>>
\* clean start drops what was carried over
CleanStartDropsPending == (step.kind = "connect" /\ step.src = "absent") => pending = <<>>
\* retransmission order = original send order for the history class named by the property (v4)
PendingPubMsgs == [i \in 1..Len(SelectSeq(pending, LAMBDA x : x.t = "publish" /\ x.id # 0)) |->
                      SelectSeq(pending, LAMBDA x : x.t = "publish" /\ x.id # 0)[i].m]
ReplayOrder == (Version = 4 /\ classOk /\ ~up) =>
                  SelectSeq(PendingPubMsgs, LAMBDA m : m \in SeqSet(sentOrder))
                     = SelectSeq(sentOrder, LAMBDA m : m \in SeqSet(PendingPubMsgs))
=============================================================================
