INIT Init
NEXT Next
CHECK_DEADLOCK FALSE
