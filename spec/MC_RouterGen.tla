----------------------------- MODULE MC_RouterGen -----------------------------
(* Stimulus scripts for the router harness (router_run): simulation of RouterSys *)
(* with every step recorded in the harness' script format.                       *)
EXTENDS MC_Router, Json

VARIABLE stim
CONSTANT EmitAt

PushedPk(n) == nets'[n].ibuf[Len(nets'[n].ibuf)]
WillJson(w) == [m |-> w.m, topic |-> w.topic, q |-> w.q, retain |-> w.retain]       \* m = 0: no will

GenInit == Init /\ stim = <<>>
GenNext ==
    \/ REvent /\ stim' = Append(stim, [op |-> "event"])
    \/ RConsume /\ stim' = Append(stim, [op |-> "consume"])
    \/ RawEvent /\ stim' = Append(stim, [op |-> "rawevent", kind |-> chan'[Len(chan')].kind, id |-> chan'[Len(chan')].id])
    \/ \E n \in Nets :
         \/ NConnect(n) /\ stim' = Append(stim, [op |-> "connect", n |-> n, cid |-> nets[n].cid, clean |-> nets[n].clean, will |-> WillJson(nets[n].will)])
         \/ NFinish(n) /\ stim' = Append(stim, [op |-> "finish", n |-> n])
         \/ NDrain(n) /\ stim' = Append(stim, [op |-> "drain", n |-> n])
         \/ NClose(n) /\ stim' = Append(stim, [op |-> "close", n |-> n])
         \/ NWill(n) /\ stim' = Append(stim, [op |-> "will", n |-> n])
         \/ Client(n) /\ stim' = Append(stim, [op |-> "push", n |-> n, pk |-> PushedPk(n)])
GenSpec == GenInit /\ [][GenNext]_<<vars, stim>>

EmitScript == (TLCGet("level") = EmitAt) =>
    PrintT(<<"SCRIPT", ToJson([cfg |-> [max_conn |-> MaxConn, out_batch |-> OutBatch, strategy |-> Strategy], steps |-> stim])>>)
=============================================================================
