--------------------------------- MODULE Will ---------------------------------
(***************************************************************************)
(* Last will through the whole connection path (C16): server/broker.rs     *)
(* remote() decides after the link ended whether Event::PublishWill is     *)
(* sent, link/remote.rs how a DISCONNECT packet ends the link, routing.rs  *)
(* handle_last_will what is published.  RouterSys.tla covers the routing   *)
(* core (WillAtMostOnce, WillNeverAfterDisconnect, WillPublishedWhenDue);  *)
(* this module is the decision table of one connection's life as the       *)
(* outside sees it, executed row by row through the real remote().         *)
(*                                                                         *)
(* A row: an earlier connection of the same client id (with a will that    *)
(* fired, or none), then the connection under test with or without a will  *)
(* (plain or retained, QoS 0/1) that ends in one of four ways.             *)
(***************************************************************************)
EXTENDS Integers, FiniteSets

Wills == {"none", "plain", "retained"}
Ends == {"drop",          \* the socket is closed
         "badack",        \* protocol error: an acknowledgement nobody solicited, the router closes the connection
         "disconnect",    \* the client sends DISCONNECT, then closes
         "disconnect_props", \* the same with an MQTT 5 DISCONNECT that carries a reason code and a property (Reason String);
                          \* a 3.1.1 client has no such packet: its rows send the plain one
         "keepalive"}     \* the client goes silent, the broker's keep-alive timer ends the connection
Priors == {"none", "fired"}       \* an earlier connection under the same client id whose will was published
Versions == {4, 5}

Disc(r) == r.end \in {"disconnect", "disconnect_props"}
Rows == [will : Wills, wq : {0, 1}, end : Ends, prior : Priors, v : Versions]

\* number of times the subscriber that was there all along sees the will of the connection under test
Live(r) == IF r.will # "none" /\ ~Disc(r) THEN 1 ELSE 0
\* a subscriber that arrives afterwards gets it as a retained message exactly when it was registered with retain and fired
Late(r) == IF r.will = "retained" /\ ~Disc(r) THEN 1 ELSE 0
\* the earlier connection's will is seen once (by the first subscriber) and never again
PriorSeen(r) == IF r.prior = "fired" THEN 1 ELSE 0

\* what the property demands: published exactly when the connection ends without DISCONNECT, never after DISCONNECT,
\* a client without a will never causes one (also not the will of an earlier connection)
Demanded(r) ==
    /\ (r.will = "none" => Live(r) = 0 /\ Late(r) = 0)
    /\ (Disc(r) => Live(r) = 0 /\ Late(r) = 0)
    /\ (r.will # "none" /\ ~Disc(r) => Live(r) = 1)
    /\ Late(r) <= Live(r)
=============================================================================
