-------------------------------- MODULE MC_Will --------------------------------
EXTENDS Will, TLC, Json, IOUtils, SequencesExt
ASSUME \A r \in Rows : Demanded(r)
ASSUME IF "OUT" \in DOMAIN IOEnv
         THEN ndJsonSerialize(IOEnv.OUT, SetToSeq({[row |-> r, live |-> Live(r), late |-> Late(r), prior |-> PriorSeen(r)] : r \in Rows}))
         ELSE TRUE
ASSUME PrintT(<<"ROWS", Cardinality(Rows)>>)
VARIABLE x
Init == x = 0
Next == UNCHANGED x
=============================================================================
