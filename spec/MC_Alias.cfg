CONSTANTS
  Topics <- MCTopics
  Filters <- MCFilters
  MatchRel <- MCMatch
  AMax = 2
  BMax = 4096
  PubAliases <- MCPubAliases
  AFix = {"alias_per_topic"}
  MaxPub = 4
SPECIFICATION Spec
CONSTRAINT PubBound
INVARIANTS OutOriginal InOriginal NoFlags TablesAgree
CHECK_DEADLOCK FALSE
