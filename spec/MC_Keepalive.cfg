CONSTANTS
  K = 3
  Horizon = 12
  MaxDelay = 6
  ConnTimeout = 5
  MaxConns = 2
SPECIFICATION Spec
INVARIANTS PingEveryInterval NoPingWhenDisabled SilentDetected NoFalseAlarm TimeoutOnTime
CHECK_DEADLOCK FALSE
