----------------------------- MODULE FramingTrace -----------------------------
(* Every decoder call recorded by the harness (codecs decode) is checked against  *)
(* Framing!CallOk; a record that breaks it is reported with its position.         *)
EXTENDS Framing, Json, IOUtils, TLC

Rec == ndJsonDeserialize(IOEnv.TRACE)
VARIABLE l
Init == l = 1
Next == /\ l <= Len(Rec)
        /\ LET r == Rec[l] IN CallOk(r.hdr, r.n, r.max, r.outcome, r.consumed)
        /\ l' = l + 1
Spec == Init /\ [][Next]_l
Accepted == IF TLCGet("stats").diameter - 1 = Len(Rec) THEN TRUE
            ELSE Print(<<"TRACE-REJECTED at line", TLCGet("stats").diameter, Rec[TLCGet("stats").diameter]>>, FALSE)
=============================================================================
