---------------------------- MODULE MC_CommitLog ----------------------------
(* Exhaustive exploration of CommitLog: every sequence of up to MaxAppends      *)
(* appends of the sizes in Sizes, for every segment-count limit in Lims, and in *)
(* every state every read (cursor, len) with a cursor the log has issued so far *)
(* (tails, entry offsets, continuations) plus fabricated cursors for the        *)
(* no-panic clause.  Each state is printed as a replay vector.                  *)
EXTENDS CommitLog, TLC, Json, SequencesExt

CONSTANTS Cap, Sizes, Lims, MaxAppends, Lens, Emit

VARIABLES L,        \* the log
          issued,   \* cursors handed out so far
          hist      \* sizes appended (replay vector)

vars == <<L, issued, hist>>

\* cursors a client can learn from the log in state l, starting from set S
Conts(l, S) == {Readv(l, c, n).end : c \in S, n \in Lens}
Tags(l, S)  == UNION {{Readv(l, c, n).out[k] : k \in 1..Len(Readv(l, c, n).out)} : c \in S, n \in Lens}
Learn(l, S) == S \cup {NextOffset(l)} \cup Conts(l, S) \cup Tags(l, S)

Init == /\ \E lim \in Lims : L = NewLog(Cap, lim)
        /\ issued = {<<0, 0>>}
        /\ hist = <<>>

DoAppend(sz) ==
    /\ Len(hist) < MaxAppends
    /\ L' = LogAppend(L, sz)
    /\ issued' = Learn(L', Learn(L', issued))
    /\ hist' = Append(hist, sz)

Next == \E sz \in Sizes : DoAppend(sz)
Spec == Init /\ [][Next]_vars

---------------------------------------------------------------------------
Structure == LogOk(L)
IssuedWellFormed == \A c \in issued : WellFormed(L, c)
ReadsOk == \A c \in issued : \A n \in Lens : ReadOk(L, c, n)

\* fabricated cursors never panic and never return anything that is not retained
Fabricated == {<<s, a>> : s \in 0..(L.tail + 2), a \in 0..(Total(L) + 2)}
NoPanic == \A c \in Fabricated : \A n \in Lens :
              LET r == Readv(L, c, n) IN
              /\ r.kind \in {"Next", "Done"}
              /\ \A k \in 1..Len(r.out) : r.out[k][2] >= First(L) /\ r.out[k][2] < Total(L)
              /\ Len(r.out) <= n

\* retention: at most lim segments (Structure), and only whole oldest segments are discarded
OnlyOldestWhole == [][/\ First(L') \in {First(L)} \cup {L.segs[i].abs : i \in 2..Len(L.segs)} \cup {Total(L)}
                      /\ L'.head - L.head \in {0, 1}
                      /\ Total(L') = Total(L) + 1]_vars

\* replay vector: the appends, the expected shape and every expected read
Vector ==
    [lim   |-> L.lim,
     sizes |-> hist,
     head  |-> L.head,
     tail  |-> L.tail,
     segs  |-> [i \in 1..Len(L.segs) |-> <<L.segs[i].abs, Len(L.segs[i].sizes)>>],
     reads |-> SetToSeq({<<c[1], c[2], n, Readv(L, c, n)>> : c \in issued, n \in Lens}),
     fab   |-> SetToSeq({<<c[1], c[2], n, Readv(L, c, n)>> : c \in Fabricated \ issued, n \in {1, 3}})]

EmitVector == Emit => PrintT(<<"VEC", ToJson(Vector)>>)
=============================================================================
