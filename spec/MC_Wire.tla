------------------------------- MODULE MC_Wire -------------------------------
(* TLC evaluates the packet value spaces of Wire.tla completely and writes one test   *)
(* vector per packet: the value and, for MQTT 3.1.1, its expected bytes (as runs).    *)
EXTENDS Wire, TLC, Json, IOUtils, SequencesExt

Vec4(p) == [v |-> 4, p |-> p, rle |-> Bytes4(p), h |-> First(p)]
Vec5(p) == [v |-> 5, p |-> p, rle |-> <<>>, h |-> Header5(p)]

\* sanity of the layout operators themselves
ASSUME VarInt(0) = Run(0, 1) /\ VarInt(127) = Run(127, 1) /\ VarInt(128) = Run(128, 1) \o Run(1, 1)
ASSUME VarInt(16383) = Run(255, 1) \o Run(127, 1) /\ VarInt(16384) = Run(128, 1) \o Run(128, 1) \o Run(1, 1)
ASSUME VarInt(2097152) = Run(128, 1) \o Run(128, 1) \o Run(128, 1) \o Run(1, 1)
ASSUME \A p \in Packets4 : RLen(Bytes4(p)) = 1 + RLen(VarInt(RLen(Body4(p)))) + RLen(Body4(p))

ASSUME IF "OUT4" \in DOMAIN IOEnv THEN ndJsonSerialize(IOEnv.OUT4, SetToSeq({Vec4(p) : p \in Packets4})) ELSE TRUE
ASSUME IF "OUT5" \in DOMAIN IOEnv THEN ndJsonSerialize(IOEnv.OUT5, SetToSeq({Vec5(p) : p \in Packets5})) ELSE TRUE
ASSUME PrintT(<<"COUNTS", Cardinality(Packets4), Cardinality(Packets5)>>)

VARIABLE x
Init == x = 0
Next == UNCHANGED x
=============================================================================
