CONSTANTS
  Links = {"a", "b"}
  Cap = 2
  MaxPush = 3
  HoldAcrossSend = FALSE
SPECIFICATION FairSpec
INVARIANTS MutualExclusion FreeWhileSending
PROPERTIES EverythingHandled
