---------------------------- MODULE KeepaliveTrace ----------------------------
(* Trace validation for C18: what the real EventLoop did in every tick of virtual *)
(* time (PINGREQ seen by the broker, failure reported, PINGRESP delivered) must    *)
(* be a behaviour of Keepalive.tla; the invariants are evaluated on every state.  *)
EXTENDS Keepalive, Json, IOUtils, TLC

Rec == ndJsonDeserialize(IOEnv.TRACE)
VARIABLE l
tvars == <<vars, l>>
E == Rec[l]
IsEvent(e) == l <= Len(Rec) /\ E.ev = e /\ l' = l + 1

TraceInit == Init /\ l = 1

TReset ==
    /\ IsEvent("reset")
    /\ now' = 0 /\ phase' = "connecting" /\ since' = 0 /\ deadline' = NEVER /\ await' = FALSE /\ due' = NEVER
    /\ stall' = E.stall /\ ping' = FALSE /\ failed' = FALSE /\ lastPing' = 0 /\ lateReply' = FALSE /\ silentFrom' = NEVER
    /\ nconn' = 1

TConnected == IsEvent("connected") /\ E.ok /\ E.elapsed_ms = 0 /\ Connected

\* the stalled handshake: ConnTimeout ticks pass, then the timeout is reported (exactly on the tick)
RECURSIVE TickN(_)
TStalled ==
    /\ IsEvent("stalled")
    /\ E.exact /\ E.elapsed = ConnTimeout /\ E.err \in {"NetworkTimeout", "Timeout"}
    /\ phase = "connecting" /\ stall
    /\ now' = now + ConnTimeout /\ phase' = "timedout" /\ failed' = TRUE
    /\ UNCHANGED <<since, deadline, await, due, stall, ping, lastPing, lateReply, silentFrom, nconn>>
TickN(n) == TRUE

TReconnect == IsEvent("reconnect") /\ Reconnect

TTick ==
    /\ IsEvent("tick")
    /\ E.t = now + 1 - since
    /\ E.reply = (due = now + 1)
    /\ Tick
    /\ ping' = E.ping
    /\ failed' = (E.fail # "none")
    /\ (E.fail # "none") => E.fail = "AwaitPingResp"

TraceNext == TReset \/ TConnected \/ TStalled \/ TTick \/ TReconnect
TraceSpec == TraceInit /\ [][TraceNext]_tvars

Progress == TLCSet(1, IF TLCGet(1) < l THEN l ELSE TLCGet(1))
ASSUME TLCSet(1, 0)
TraceAccepted ==
    LET d == TLCGet(1) IN
    IF d - 1 = Len(Rec) THEN TRUE
    ELSE Print(<<"TRACE-REJECTED at line", d, IF d <= Len(Rec) THEN Rec[d] ELSE "eof">>, FALSE)
=============================================================================
