----------------------------- MODULE ClientState -----------------------------
(***************************************************************************)
(* rumqttc client: MqttState (state.rs / v5/state.rs) and the part of      *)
(* EventLoop (eventloop.rs) that decides what is sent when: the request    *)
(* gate, `pending`, clean() and reconnect.  C02 C07 C10 C11.               *)
(*                                                                         *)
(* The operators HandleOut / HandleIn / Clean transcribe the public        *)
(* methods handle_outgoing_packet / handle_incoming_packet / clean of      *)
(* MqttState one to one; they return [s, wr, ev, err]: the new state, the  *)
(* packet to write (sequence of length 0 or 1), the events queued and the  *)
(* error (NONE if Ok).  MC_ClientSM explores them directly (and its        *)
(* behaviours are replayed into the real MqttState); the EventLoop actions *)
(* below compose them the way EventLoop::select / clean / poll do.         *)
(*                                                                         *)
(* Version = 4 or 5 selects the differences between the two copies.        *)
(***************************************************************************)
EXTENDS Naturals, Sequences, FiniteSets

CONSTANTS Version,      \* 4 | 5
          N,            \* inflight limit given at construction (v5: the upper limit)
          ManualAcks,   \* BOOLEAN
          Fix           \* subset of AllFixes: repairs applied to the code
                        \* (fix: commits in /repo); {} = the code as pinned

NONE == "none"
AllFixes == {"pubcomp_collision", "clean_collision", "rel_id_reuse", "clean_order", "clean_start_rotation", "replay_window", "pkid_wrap",
             "ack_failure"}
\* MQTT 5 acknowledgements carry a reason code; p.q = 1 on a puback / pubrec / pubrel / pubcomp stands for a failure code
\* (anything but Success / NoMatchingSubscribers), which ends the flow of that packet id.
Failed(p) == Version = 5 /\ p.q = 1
\* "no packet" for slots and the collision (a record, so that TLC can compare it with packets)
NOPK == [t |-> "none", id |-> 0, q |-> 0, m |-> 0]

\* packets and requests: uniform record
Pk(t, id, q, m) == [t |-> t, id |-> id, q |-> q, m |-> m]
\* events queued for the user
EvIn(p) == [k |-> "in", t |-> p.t, id |-> p.id]
EvOut(t, id) == [k |-> "out", t |-> t, id |-> id]

InitState ==
    [lastPkid   |-> 0,
     lastPuback |-> 0,                  \* v4 only
     inflight   |-> 0,
     maxOut     |-> N,                  \* v5: may be lowered by CONNACK receive_max
     outPub     |-> [k \in 0..N |-> NOPK],
     outRel     |-> {},
     inPub      |-> {},
     collision  |-> NOPK,
     awaitPing  |-> FALSE,
     collPing   |-> 0,
     panicked   |-> FALSE]

R(s, wr, ev, err) == [s |-> s, wr |-> wr, ev |-> ev, err |-> err]

\* next_pkid
\* repaired ("pkid_wrap", v5): when the limit was lowered below the last id handed out, restart from 1
NextId(s) == IF "pkid_wrap" \in Fix /\ s.lastPkid >= s.maxOut THEN 1 ELSE s.lastPkid + 1
AfterNextId(s) == [s EXCEPT !.lastPkid = IF NextId(s) = s.maxOut THEN 0 ELSE NextId(s)]

\* self.inflight -= 1 (u16: panics in debug builds when it underflows)
Dec(s) == IF s.inflight = 0 THEN [s EXCEPT !.panicked = TRUE] ELSE [s EXCEPT !.inflight = @ - 1]

(***************************************************************************)
(* handle_outgoing_packet                                                  *)
(***************************************************************************)
OutPublish(s, p) ==
    IF p.q = 0 THEN R(s, <<p>>, <<EvOut("publish", p.id)>>, NONE)
    ELSE
    LET fresh == p.id = 0
        id == IF fresh THEN NextId(s) ELSE p.id
        s1 == IF fresh THEN AfterNextId(s) ELSE s
        pp == [p EXCEPT !.id = id]
    IN  IF id > N THEN R(s1, <<>>, <<>>, "Unsolicited")           \* outgoing_pub.get(pkid) == None
        ELSE IF s1.outPub[id] # NOPK \/ ("rel_id_reuse" \in Fix /\ id \in s1.outRel)
               THEN R([s1 EXCEPT !.collision = pp], <<>>, <<EvOut("awaitack", id)>>, NONE)
               ELSE R([s1 EXCEPT !.outPub[id] = pp, !.inflight = @ + 1], <<pp>>, <<EvOut("publish", id)>>, NONE)

OutPubRel(s, p) ==
    LET fresh == p.id = 0
        id == IF fresh THEN NextId(s) ELSE p.id
        s1 == IF fresh THEN AfterNextId(s) ELSE s
    IN  IF id > N THEN R([s1 EXCEPT !.panicked = TRUE], <<>>, <<>>, NONE)    \* FixedBitSet::insert out of bounds
        ELSE R([s1 EXCEPT !.outRel = @ \cup {id}, !.inflight = @ + 1], <<Pk("pubrel", id, 0, 0)>>, <<EvOut("pubrel", id)>>, NONE)

OutSubUnsub(s, p) ==
    LET id == NextId(s) IN
    R(AfterNextId(s), <<[p EXCEPT !.id = id]>>, <<EvOut(p.t, id)>>, NONE)

OutPing(s) ==
    LET s1 == IF s.collision # NOPK THEN [s EXCEPT !.collPing = @ + 1] ELSE s IN
    IF s.collision # NOPK /\ s1.collPing >= 2 THEN R(s1, <<>>, <<>>, "CollisionTimeout")
    ELSE IF s1.awaitPing THEN R(s1, <<>>, <<>>, "AwaitPingResp")
    ELSE R([s1 EXCEPT !.awaitPing = TRUE], <<Pk("pingreq", 0, 0, 0)>>, <<EvOut("pingreq", 0)>>, NONE)

HandleOut(s, p) ==
    CASE p.t = "publish"     -> OutPublish(s, p)
      [] p.t = "pubrel"      -> OutPubRel(s, p)
      [] p.t \in {"subscribe", "unsubscribe"} -> OutSubUnsub(s, p)
      [] p.t = "pingreq"     -> OutPing(s)
      [] p.t = "disconnect"  -> R(s, <<p>>, <<EvOut("disconnect", 0)>>, NONE)
      [] p.t \in {"puback", "pubrec"} -> R(s, <<p>>, <<EvOut(p.t, p.id)>>, NONE)   \* manual acks

(***************************************************************************)
(* handle_incoming_packet: the Incoming event is queued first, whatever    *)
(* the handler then does.                                                  *)
(***************************************************************************)
TakeCollision(s, k) == s.collision # NOPK /\ s.collision.id = k

InPublish(s, p) ==
    CASE p.q = 0 -> R(s, <<>>, <<>>, NONE)
      [] p.q = 1 -> IF ManualAcks THEN R(s, <<>>, <<>>, NONE)
                    ELSE R(s, <<Pk("puback", p.id, 0, 0)>>, <<EvOut("puback", p.id)>>, NONE)
      [] p.q = 2 -> LET s1 == [s EXCEPT !.inPub = @ \cup {p.id}] IN
                    IF ManualAcks THEN R(s1, <<>>, <<>>, NONE)
                    ELSE R(s1, <<Pk("pubrec", p.id, 0, 0)>>, <<EvOut("pubrec", p.id)>>, NONE)

\* As pinned a failure code returns early: PUBACK before the waiting collision is looked at, PUBREC before the window
\* counter is given back (it is given back on PUBCOMP, which will never come).  Repaired ("ack_failure"): the flow is
\* over, so the counter is given back and a publish waiting for this id takes it over, exactly as on success.
InPubAck(s, p) ==
    LET k == p.id IN
    IF k > N THEN R(s, <<>>, <<>>, "Unsolicited")
    ELSE LET s0 == IF Version = 4 THEN [s EXCEPT !.lastPuback = k] ELSE s IN
         IF s0.outPub[k] = NOPK THEN R(s0, <<>>, <<>>, "Unsolicited")
         ELSE LET s1 == Dec([s0 EXCEPT !.outPub[k] = NOPK]) IN
              IF Failed(p) /\ "ack_failure" \notin Fix THEN R(s1, <<>>, <<>>, NONE)
              ELSE IF TakeCollision(s1, k)
                THEN LET c == s1.collision IN
                     R([s1 EXCEPT !.outPub[k] = c, !.inflight = @ + 1, !.collision = NOPK, !.collPing = 0],
                       <<c>>, <<EvOut("publish", k)>>, NONE)
                ELSE R(s1, <<>>, <<>>, NONE)

InPubRec(s, p) ==
    LET k == p.id IN
    IF k > N THEN R(s, <<>>, <<>>, "Unsolicited")
    ELSE IF s.outPub[k] = NOPK THEN R(s, <<>>, <<>>, "Unsolicited")
    ELSE IF Failed(p) THEN
         IF "ack_failure" \notin Fix THEN R([s EXCEPT !.outPub[k] = NOPK], <<>>, <<>>, NONE)
         ELSE LET s1 == Dec([s EXCEPT !.outPub[k] = NOPK]) IN
              IF TakeCollision(s1, k)
                THEN LET c == s1.collision IN
                     R([s1 EXCEPT !.outPub[k] = c, !.inflight = @ + 1, !.collision = NOPK, !.collPing = 0],
                       <<c>>, <<EvOut("publish", k)>>, NONE)
                ELSE R(s1, <<>>, <<>>, NONE)
    ELSE R([s EXCEPT !.outPub[k] = NOPK, !.outRel = @ \cup {k}],
           <<Pk("pubrel", k, 0, 0)>>, <<EvOut("pubrel", k)>>, NONE)

\* a PUBREL with a failure code: the inbound flow is dropped, no PUBCOMP (as the code does; not demanded otherwise)
InPubRel(s, p) ==
    IF p.id \notin s.inPub THEN R(s, <<>>, <<>>, "Unsolicited")
    ELSE IF Failed(p) THEN R([s EXCEPT !.inPub = @ \ {p.id}], <<>>, <<>>, NONE)
    ELSE R([s EXCEPT !.inPub = @ \ {p.id}], <<Pk("pubcomp", p.id, 0, 0)>>, <<EvOut("pubcomp", p.id)>>, NONE)

\* A collision resolved by PUBCOMP.  Repaired ("pubcomp_collision"): the waiting publish takes over the id,
\* stored and counted as on PUBACK.  As pinned: v4 writes and announces it without storing or counting it;
\* v5 takes and announces it before the solicited check and drops it when that check fails.
InPubComp(s, p) ==
    LET k == p.id IN
    IF "pubcomp_collision" \in Fix THEN
        IF k \notin s.outRel THEN R(s, <<>>, <<>>, "Unsolicited")
        \* as pinned a failure code returns before the counter is given back and the collision is looked at
        ELSE IF Failed(p) /\ "ack_failure" \notin Fix THEN R([s EXCEPT !.outRel = @ \ {k}], <<>>, <<>>, NONE)
        ELSE LET s1 == Dec([s EXCEPT !.outRel = @ \ {k}]) IN
             IF TakeCollision(s1, k)
               THEN LET c == s1.collision IN
                    R([s1 EXCEPT !.outPub[k] = c, !.inflight = @ + 1, !.collision = NOPK, !.collPing = 0],
                      <<c>>, <<EvOut("publish", k)>>, NONE)
               ELSE R(s1, <<>>, <<>>, NONE)
    ELSE IF Version = 4 THEN
        IF k \notin s.outRel THEN R(s, <<>>, <<>>, "Unsolicited")
        ELSE LET s1 == Dec([s EXCEPT !.outRel = @ \ {k}]) IN
             IF TakeCollision(s1, k)
               THEN R([s1 EXCEPT !.collision = NOPK, !.collPing = 0], <<s1.collision>>, <<EvOut("publish", k)>>, NONE)
               ELSE R(s1, <<>>, <<>>, NONE)
    ELSE
        LET take == TakeCollision(s, k)
            s0 == IF take THEN [s EXCEPT !.collision = NOPK, !.collPing = 0] ELSE s
            ev == IF take THEN <<EvOut("publish", k)>> ELSE <<>>
            wr == IF take THEN <<s.collision>> ELSE <<>>
        IN  IF k \notin s0.outRel THEN R(s0, <<>>, ev, "Unsolicited")
            ELSE R(Dec([s0 EXCEPT !.outRel = @ \ {k}]), wr, ev, NONE)

\* v5: receive_max in CONNACK (p.q carries it, 0 = absent)
InConnAck(s, p) ==
    IF Version = 4 THEN R(s, <<>>, <<>>, "WrongPacket")
    ELSE IF p.q = 0 THEN R(s, <<>>, <<>>, NONE)
    ELSE R([s EXCEPT !.maxOut = IF p.q < N THEN p.q ELSE N], <<>>, <<>>, NONE)

HandleInBody(s, p) ==
    CASE p.t = "pingresp" -> R([s EXCEPT !.awaitPing = FALSE], <<>>, <<>>, NONE)
      [] p.t = "publish"  -> InPublish(s, p)
      [] p.t \in {"suback", "unsuback"} -> R(s, <<>>, <<>>, NONE)
      [] p.t = "puback"   -> InPubAck(s, p)
      [] p.t = "pubrec"   -> InPubRec(s, p)
      [] p.t = "pubrel"   -> InPubRel(s, p)
      [] p.t = "pubcomp"  -> InPubComp(s, p)
      [] p.t = "connack"  -> InConnAck(s, p)
      [] p.t = "disconnect" -> R(s, <<>>, <<>>, IF Version = 4 THEN "WrongPacket" ELSE "ServerDisconnect")
      [] OTHER -> R(s, <<>>, <<>>, "WrongPacket")       \* connect, subscribe, unsubscribe, pingreq from a broker

HandleIn(s, p) ==
    LET r == HandleInBody(s, p) IN [r EXCEPT !.ev = <<EvIn(p)>> \o @]

(***************************************************************************)
(* clean(): the retransmission list.  v4 rotates at last_puback + 1.       *)
(* Repaired ("clean_collision"): a pending collision is carried over last, *)
(* behind the publishes and releases (it keeps its id, so it collides      *)
(* again and waits).  As pinned: clean() leaves `collision` alone.         *)
(***************************************************************************)
RECURSIVE SeqOfSlots(_, _)
SeqOfSlots(s, order) ==
    IF order = <<>> THEN <<>>
    ELSE (IF s.outPub[Head(order)] # NOPK THEN <<s.outPub[Head(order)]>> ELSE <<>>) \o SeqOfSlots(s, Tail(order))

SlotOrder(s) ==
    IF Version = 4
      THEN [i \in 1..(N - s.lastPuback) |-> s.lastPuback + i] \o [i \in 1..(s.lastPuback + 1) |-> i - 1]
      ELSE [i \in 1..(N + 1) |-> i - 1]

RECURSIVE SetToSortedSeq(_)
SetToSortedSeq(S) ==
    IF S = {} THEN <<>>
    ELSE LET x == CHOOSE y \in S : \A z \in S : y <= z IN <<x>> \o SetToSortedSeq(S \ {x})

CleanPending(s) ==
    SeqOfSlots(s, SlotOrder(s))
      \o [i \in 1..Cardinality(s.outRel) |-> Pk("pubrel", SetToSortedSeq(s.outRel)[i], 0, 0)]
      \o (IF "clean_collision" \in Fix /\ s.collision # NOPK THEN <<s.collision>> ELSE <<>>)

Clean(s) ==
    [s EXCEPT !.outPub = [k \in 0..N |-> NOPK], !.outRel = {}, !.inPub = {},
              !.collision = IF "clean_collision" \in Fix THEN NOPK ELSE @,
              !.awaitPing = FALSE, !.collPing = 0, !.inflight = 0]

\* projection of MqttState that is visible through its public API
Visible(s) == [inflight |-> s.inflight, collision |-> s.collision, awaitPing |-> s.awaitPing, collPing |-> s.collPing]

\* true bookkeeping facts about a state (used by several invariants)
Occupied(s) == {k \in 0..N : s.outPub[k] # NOPK}
CountAccurate(s) == s.inflight = Cardinality(Occupied(s)) + Cardinality(s.outRel)
=============================================================================
