---------------------------- MODULE MC_ClientLoop ----------------------------
(* TLC configurations of ClientLoop.  Each property gets the view that keeps    *)
(* exactly the ghost variables its invariants read (sound for those             *)
(* invariants, much smaller than the full state); per-step output predicates    *)
(* are checked on transitions (step is never part of a view).                   *)
EXTENDS ClientLoop, Json

Bound == Len(pending) <= 2 * N + ChanCap + 2

ViewCore == <<s, pending, chan, up, inbuf, nmsg, nfail, nbroker>>
ViewC02 == <<ViewCore, live, liveRel>>
ViewC07 == <<ViewCore, unacked, dupWrite>>
ViewC10 == ViewCore
ViewC11 == <<ViewCore, sentOrder, carried, classOk, resumed>>
ViewAll == vars

\* per-step predicates on transitions
IdsInRangeA == [][IdsInRange']_vars
IncomingOnceInOrderA == [][IncomingOnceInOrder']_vars
AnnounceIffWriteA == [][AnnounceIffWrite']_vars
ReplayFirstA == [][ReplayFirst']_vars
CleanStartDropsPendingA == [][CleanStartDropsPending']_vars

=============================================================================
