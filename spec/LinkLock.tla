------------------------------- MODULE LinkLock -------------------------------
(***************************************************************************)
(* The lock / channel protocol between a local link and the router thread  *)
(* (C03: nothing a client does may halt the routing core).                 *)
(*                                                                         *)
(*   link:   LinkTx::push (rumqttd/src/link/local.rs): lock the link's     *)
(*           incoming buffer, push the packet, UNLOCK, then send           *)
(*           (id, DeviceData) into the router's bounded event channel -    *)
(*           a blocking send when the channel is full.                     *)
(*   router: Router::run_inner receives an event and, for DeviceData,      *)
(*           handle_device_payload -> Incoming::exchange locks that        *)
(*           link's buffer, swaps it out and unlocks.                      *)
(*                                                                         *)
(* HoldAcrossSend = FALSE is the code as it is.  TRUE models a link that   *)
(* keeps its buffer locked while it waits for a free slot: with the        *)
(* channel full and an event of that link at its head, link and router     *)
(* wait for each other for ever (TLC reports the deadlock; negative        *)
(* control).                                                               *)
(***************************************************************************)
EXTENDS Integers, Sequences, FiniteSets

CONSTANTS Links, Cap, MaxPush, HoldAcrossSend

VARIABLES chan,     \* the router's event channel: sequence of link ids (DeviceData events), capacity Cap
          lock,     \* per link: who holds the buffer mutex: "none" | "link" | "router"
          pc,       \* per link: "idle" | "locked" | "sending"
          pushed,   \* per link: completed pushes
          buf,      \* per link: packets in the shared buffer
          rpc,      \* router: "idle" | "want" | "have"
          cur,      \* router: the link whose event is being handled
          handled   \* packets the router has taken out
vars == <<chan, lock, pc, pushed, buf, rpc, cur, handled>>

Init == /\ chan = <<>> /\ lock = [l \in Links |-> "none"] /\ pc = [l \in Links |-> "idle"]
        /\ pushed = [l \in Links |-> 0] /\ buf = [l \in Links |-> 0]
        /\ rpc = "idle" /\ cur \in Links /\ handled = 0

LLock(l) == /\ pc[l] = "idle" /\ pushed[l] < MaxPush /\ lock[l] = "none"
            /\ lock' = [lock EXCEPT ![l] = "link"] /\ buf' = [buf EXCEPT ![l] = @ + 1]
            /\ pc' = [pc EXCEPT ![l] = "locked"]
            /\ UNCHANGED <<chan, pushed, rpc, cur, handled>>
\* the inner block of push ends: the guard is dropped before the send
LUnlock(l) == /\ pc[l] = "locked" /\ ~HoldAcrossSend
              /\ lock' = [lock EXCEPT ![l] = "none"] /\ pc' = [pc EXCEPT ![l] = "sending"]
              /\ UNCHANGED <<chan, pushed, buf, rpc, cur, handled>>
\* router_tx.send: waits for a free slot
LSend(l) == /\ pc[l] = (IF HoldAcrossSend THEN "locked" ELSE "sending")
            /\ Len(chan) < Cap
            /\ chan' = Append(chan, l)
            /\ lock' = IF HoldAcrossSend THEN [lock EXCEPT ![l] = "none"] ELSE lock
            /\ pc' = [pc EXCEPT ![l] = "idle"] /\ pushed' = [pushed EXCEPT ![l] = @ + 1]
            /\ UNCHANGED <<buf, rpc, cur, handled>>

RRecv == /\ rpc = "idle" /\ chan # <<>>
         /\ cur' = Head(chan) /\ chan' = Tail(chan) /\ rpc' = "want"
         /\ UNCHANGED <<lock, pc, pushed, buf, handled>>
RLock == /\ rpc = "want" /\ lock[cur] = "none"
         /\ lock' = [lock EXCEPT ![cur] = "router"] /\ rpc' = "have"
         /\ UNCHANGED <<chan, pc, pushed, buf, cur, handled>>
RUnlock == /\ rpc = "have"
           /\ handled' = handled + buf[cur] /\ buf' = [buf EXCEPT ![cur] = 0]
           /\ lock' = [lock EXCEPT ![cur] = "none"] /\ rpc' = "idle"
           /\ UNCHANGED <<chan, pc, pushed, cur>>

AllDone == /\ \A l \in Links : pushed[l] = MaxPush /\ pc[l] = "idle"
           /\ chan = <<>> /\ rpc = "idle"
Finished == AllDone /\ UNCHANGED vars

Next == (\E l \in Links : LLock(l) \/ LUnlock(l) \/ LSend(l)) \/ RRecv \/ RLock \/ RUnlock \/ Finished
Spec == Init /\ [][Next]_vars
FairSpec == Spec /\ WF_vars(RRecv) /\ WF_vars(RLock) /\ WF_vars(RUnlock)
                 /\ \A l \in Links : WF_vars(LLock(l)) /\ WF_vars(LUnlock(l)) /\ WF_vars(LSend(l))

\* checked with deadlock checking on: some step is always possible until everything is done
MutualExclusion == \A l \in Links : (lock[l] = "router") => (rpc = "have" /\ cur = l)
\* while a link waits for a free slot its buffer is not locked by it (what the replayed schedule observes on the real code)
FreeWhileSending == \A l \in Links : (pc[l] = "sending") => lock[l] # "link"
\* every packet pushed is taken out by the router
EverythingHandled == <>[](AllDone /\ handled = MaxPush * Cardinality(Links))
=============================================================================
