CONSTANTS
  Nets = {"n1", "n2", "n3", "n4", "n5", "n6"}
  MaxConn = 2
  MaxInflight = 100
  MaxChan = 200
  MaxSched = 100
  OutBatch = 2
  MatchRel <- TMatch
  RFix = {"ready_unknown", "unsuback_one", "unsub_notifs", "resume_submap", "group_bufferfull", "group_per_filter", "unsub_own_group", "unsub_shared_waiter", "group_skip_unread", "resume_rejoin"}
  CIDs = {"c1", "c2", "c3"}
  Topics <- TTopics
  Filters <- TFilters
  SubFilters <- TFilters
  Strategy = "RoundRobin"
  Strict = TRUE
  NetCid <- TNetCid
  NetClean <- TClean
  NetWill <- TNoWill
  SubQoS = {}
  PubQoS = {}
  PubRetain = {}
  Subscribers = {}
  Publishers = {}
  Adversaries = {}
  MaxPub = 0
  MaxSubOps = 0
  MaxCloses = 100
  EnUnsub = TRUE
  EnPing = TRUE
  EnDisconnect = TRUE
  PubEmpty = {FALSE}
  EnStale = TRUE
SPECIFICATION TraceSpec
CONSTRAINT Progress
POSTCONDITION TraceAccepted
CHECK_DEADLOCK FALSE
