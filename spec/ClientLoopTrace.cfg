CONSTANTS
  Strict = TRUE
  Version = 4
  N = 2
  ManualAcks = FALSE
  Fix = {"pubcomp_collision", "clean_collision", "rel_id_reuse", "clean_order", "clean_start_rotation", "replay_window", "pkid_wrap", "ack_failure"}
  GateFix = TRUE
  MaxMsgs = 0
  ChanCap = 0
  MaxFails = 0
  MaxBroker = 0
  QoSs = {}
  Subs = FALSE
SPECIFICATION TraceSpec
CONSTRAINT Progress
POSTCONDITION TraceAccepted
CHECK_DEADLOCK FALSE
