-------------------------------- MODULE Alias --------------------------------
(***************************************************************************)
(* MQTT 5 topic aliases, end to end, as the code implements them:          *)
(*                                                                         *)
(*   publishing client  rumqttc/src/v5/state.rs outgoing_publish: an alias *)
(*                      above the broker's Topic Alias Maximum (CONNACK)   *)
(*                      is refused (StateError::InvalidAlias)              *)
(*   broker, incoming   rumqttd/src/router/routing.rs                      *)
(*                      validate_and_set_topic_alias: Connection.          *)
(*                      topic_aliases (alias -> topic) of the publisher    *)
(*   broker, outgoing   routing.rs forward_device_data + connection.rs     *)
(*                      BrokerAliases (key -> alias, Slab of used aliases, *)
(*                      bounded by the subscriber's Topic Alias Maximum),  *)
(*                      remove_alias on UNSUBSCRIBE                        *)
(*   subscribing client rumqttc/src/v5/state.rs handle_incoming_publish:   *)
(*                      topic_alises (alias -> topic)                      *)
(*                                                                         *)
(* The routing core in between is abstracted to what matters here: an      *)
(* accepted message is queued for every subscribed filter it matches       *)
(* (`pend`), and a scheduling turn forwards, filter by filter in some      *)
(* order, everything queued for that filter as one batch (Router.tla has   *)
(* the real scheduling; the harness keeps batches below the batch limit).  *)
(* One publisher connection P, one subscriber connection S.                *)
(*                                                                         *)
(* AFix = {} is the code as pinned: the outgoing alias is keyed by the     *)
(* *filter of the data request*. "alias_per_topic": keyed by the topic of  *)
(* each forwarded publish (fix: commit in /repo).                          *)
(***************************************************************************)
EXTENDS Integers, Sequences, FiniteSets, TLC

CONSTANTS
    Topics,        \* topic names
    Filters,       \* filters S may subscribe
    MatchRel,      \* <<topic, filter>> pairs that match (MqttTopic!Matches)
    AMax,          \* Topic Alias Maximum in S's CONNECT (0: the broker must not use aliases towards S)
    BMax,          \* routing.rs TOPIC_ALIAS_MAX, announced in the CONNACK (code: 4096)
    PubAliases,    \* alias values the publishing user may put into a PUBLISH (-1 = no alias property)
    AFix

NOTOPIC == "none"          \* empty topic name on the wire
Matches(t, f) == <<t, f>> \in MatchRel

VARIABLES
    pup,        \* P's connection exists at the broker
    ptab,       \* broker: Connection.topic_aliases of P, a function alias -> topic with finite domain
    utab,       \* the publishing user's own idea of its aliases (ghost: what it means by an empty topic)
    subs,       \* filters S is subscribed to
    pend,       \* per filter: accepted messages not yet forwarded, <<m, topic>>
    btab,       \* broker: BrokerAliases.broker_topic_aliases of S, key -> alias
    slab,       \* broker: BrokerAliases.used_aliases (slab::Slab): [next, free]; slot 0 is taken at construction
    ctab,       \* subscribing client: MqttState.topic_alises, alias -> topic
    nextM,      \* message counter
    accLog,     \* messages accepted since the last scheduling turn, <<m, topic>> (what a subscriber to '#' without aliases gets)
    accepted,   \* ghost: set of <<what the user meant, topic the broker accepted>>
    delivered,  \* ghost: set of <<accepted topic, topic the subscribing user saw>>
    flags       \* ghost: set of things that must never happen
vars == <<pup, ptab, utab, subs, pend, btab, slab, ctab, nextM, accLog, accepted, delivered, flags>>

EMPTY == [x \in {} |-> NOTOPIC]
Put(f, k, v) == [x \in DOMAIN f \cup {k} |-> IF x = k THEN v ELSE f[x]]
Del(f, k) == [x \in DOMAIN f \ {k} |-> f[x]]
SLAB0 == [next |-> 1, free |-> <<>>]
\* slab::Slab::insert / remove: the most recently vacated slot is used first
SlabKey(s) == IF s.free # <<>> THEN Head(s.free) ELSE s.next
SlabInsert(s) == IF s.free # <<>> THEN [s EXCEPT !.free = Tail(@)] ELSE [s EXCEPT !.next = @ + 1]
SlabRemove(s, k) == [s EXCEPT !.free = <<k>> \o @]

Init ==
    /\ pup = TRUE /\ ptab = EMPTY /\ utab = EMPTY
    /\ subs = {} /\ pend = [f \in Filters |-> <<>>]
    /\ btab = EMPTY /\ slab = SLAB0 /\ ctab = EMPTY
    /\ nextM = 1 /\ accLog = <<>> /\ accepted = {} /\ delivered = {} /\ flags = {}

(***************************************************************************)
(* Publisher side                                                          *)
(***************************************************************************)
\* result of one PUBLISH(topic t or empty, alias a): "clienterr" | "disc" | accepted topic
PubResult(t, a, full) ==
    IF a > BMax THEN "clienterr"                                   \* outgoing_publish: InvalidAlias, nothing is sent
    ELSE IF a = -1 THEN t                                          \* no alias property
    ELSE IF a = 0 THEN "disc"                                      \* TopicAliasInvalid
    ELSE IF full THEN t
    ELSE IF a \in DOMAIN ptab THEN ptab[a] ELSE "disc"             \* ProtocolError: empty topic, unknown alias

Accept(m, topic) ==
    /\ accLog' = Append(accLog, <<m, topic>>)
    /\ pend' = [f \in Filters |-> IF f \in subs /\ Matches(topic, f) THEN Append(pend[f], <<m, topic>>) ELSE pend[f]]

\* what the user means: the topic it wrote, or what it registered under the alias before
Meant(t, a, full) == IF full THEN t ELSE IF a \in DOMAIN utab THEN utab[a] ELSE "nothing"

Pub(t, a, full) ==
    /\ pup
    /\ full \/ a >= 0
    /\ LET res == PubResult(t, a, full) IN
       /\ nextM' = nextM + 1
       /\ CASE res = "clienterr" -> UNCHANGED <<pup, ptab, utab, pend, accLog, accepted>>
            [] res = "disc" ->
                 \* the router ends P's connection; P connects again after the next scheduling turn (a new Connection: no aliases)
                 /\ pup' = FALSE /\ ptab' = EMPTY /\ utab' = EMPTY /\ UNCHANGED <<pend, accLog, accepted>>
            [] OTHER ->
                 /\ ptab' = IF a > 0 /\ full THEN Put(ptab, a, t) ELSE ptab
                 /\ utab' = IF a > 0 /\ full THEN Put(utab, a, t) ELSE utab
                 /\ Accept(nextM, res)
                 /\ accepted' = accepted \cup {<<Meant(t, a, full), res>>}
                 /\ UNCHANGED pup
    /\ UNCHANGED <<subs, btab, slab, ctab, delivered, flags>>

(***************************************************************************)
(* Subscriber side                                                         *)
(***************************************************************************)
Quiet == accLog = <<>> /\ \A f \in Filters : pend[f] = <<>>

Sub(f) ==
    /\ Quiet
    /\ subs' = subs \cup {f}
    /\ UNCHANGED <<pup, ptab, utab, pend, btab, slab, ctab, nextM, accLog, accepted, delivered, flags>>

\* UNSUBSCRIBE: BrokerAliases::remove_alias(filter)
Unsub(f) ==
    /\ Quiet /\ f \in subs
    /\ subs' = subs \ {f}
    /\ IF f \in DOMAIN btab THEN btab' = Del(btab, f) /\ slab' = SlabRemove(slab, btab[f])
                             ELSE UNCHANGED <<btab, slab>>
    /\ UNCHANGED <<pup, ptab, utab, pend, ctab, nextM, accLog, accepted, delivered, flags>>

\* S goes away and comes back with a clean session: a new Connection at the broker; the client keeps its MqttState
\* (EventLoop::clean -> MqttState::clean, which leaves topic_alises alone)
Reconnect ==
    /\ Quiet
    /\ subs' = {} /\ btab' = EMPTY /\ slab' = SLAB0
    /\ UNCHANGED <<pup, ptab, utab, pend, ctab, nextM, accLog, accepted, delivered, flags>>

\* BrokerAliases::get_alias / set_new_alias for one key: [alias (0 = none), existed, btab, slab]
AliasFor(bt, sl, key) ==
    IF AMax = 0 THEN [alias |-> 0, existed |-> FALSE, btab |-> bt, slab |-> sl]            \* broker_topic_aliases = None
    ELSE IF key \in DOMAIN bt THEN [alias |-> bt[key], existed |-> TRUE, btab |-> bt, slab |-> sl]
    ELSE LET k == SlabKey(sl) s1 == SlabInsert(sl) IN
         IF k > AMax THEN [alias |-> 0, existed |-> FALSE, btab |-> bt, slab |-> SlabRemove(s1, k)]
         ELSE [alias |-> k, existed |-> FALSE, btab |-> Put(bt, key, k), slab |-> s1]

\* forward_device_data for the request of filter f with the batch msgs: [out, btab, slab]; out: <<m, topic on the wire, alias>>
RECURSIVE PerTopic(_, _, _, _)
PerTopic(msgs, bt, sl, out) ==
    IF msgs = <<>> THEN [out |-> out, btab |-> bt, slab |-> sl]
    ELSE LET e == Head(msgs) a == AliasFor(bt, sl, e[2]) IN
         PerTopic(Tail(msgs), a.btab, a.slab, Append(out, <<e[1], IF a.existed THEN NOTOPIC ELSE e[2], a.alias>>))

Batch(f, msgs, bt, sl) ==
    IF "alias_per_topic" \in AFix THEN PerTopic(msgs, bt, sl, <<>>)
    ELSE LET a == AliasFor(bt, sl, f) IN
         [out |-> [i \in 1..Len(msgs) |-> <<msgs[i][1], IF a.existed THEN NOTOPIC ELSE msgs[i][2], a.alias>>],
          btab |-> a.btab, slab |-> a.slab]

RECURSIVE Batches(_, _, _, _)
Batches(order, bt, sl, out) ==
    IF order = <<>> THEN [out |-> out, btab |-> bt, slab |-> sl]
    ELSE LET b == Batch(Head(order), pend[Head(order)], bt, sl) IN Batches(Tail(order), b.btab, b.slab, out \o b.out)

\* What the rumqttc user is shown (Event::Incoming): handle_incoming_packet queues a copy of the packet *before*
\* handle_incoming_publish resolves the alias in its own copy, so the user sees the topic as it was on the wire
\* (empty when the broker used an established alias). "client_event_resolved" (not applied): the resolved packet is queued.
Seen(got, out) == [i \in 1..Len(got) |-> IF got[i][2] = "protoerr" \/ "client_event_resolved" \in AFix THEN got[i] ELSE <<out[i][1], out[i][2]>>]

\* rumqttc v5 handle_incoming_publish over the forwards, one by one: [got, ctab]; got: <<m, topic seen by the user>>
RECURSIVE Receive(_, _, _)
Receive(out, ct, got) ==
    IF out = <<>> THEN [got |-> got, ctab |-> ct]
    ELSE LET e == Head(out) IN
         IF e[2] # NOTOPIC THEN Receive(Tail(out), IF e[3] > 0 THEN Put(ct, e[3], e[2]) ELSE ct, Append(got, <<e[1], e[2]>>))
         ELSE IF e[3] > 0 /\ e[3] \in DOMAIN ct THEN Receive(Tail(out), ct, Append(got, <<e[1], ct[e[3]]>>))
         ELSE IF e[3] > 0 THEN [got |-> Append(got, <<e[1], "protoerr">>), ctab |-> ct]    \* handle_protocol_error: the client gives up
         ELSE Receive(Tail(out), ct, Append(got, <<e[1], NOTOPIC>>))

Busy == {f \in Filters : pend[f] # <<>>}
Orders == {p \in [1..Cardinality(Busy) -> Busy] : \A i, j \in 1..Cardinality(Busy) : i # j => p[i] # p[j]}
Want(m) == LET f == CHOOSE f \in Busy : \E i \in 1..Len(pend[f]) : pend[f][i][1] = m
               i == CHOOSE i \in 1..Len(pend[f]) : pend[f][i][1] = m
           IN  pend[f][i][2]

\* a scheduling turn of S followed by the client reading everything
SyncWith(order) ==
    LET b == Batches(order, btab, slab, <<>>)
        r == Receive(b.out, ctab, <<>>)
    IN  /\ btab' = b.btab /\ slab' = b.slab /\ ctab' = r.ctab
        /\ pend' = [f \in Filters |-> <<>>] /\ accLog' = <<>> /\ pup' = TRUE
        /\ delivered' = delivered \cup {<<Want(r.got[i][1]), r.got[i][2]>> : i \in 1..Len(r.got)}
        /\ flags' = flags \cup {"alias out of range" : i \in {i \in 1..Len(b.out) : b.out[i][3] > AMax}}
                          \cup {"client protocol error" : i \in {i \in 1..Len(r.got) : r.got[i][2] = "protoerr"}}
        /\ UNCHANGED <<ptab, utab, subs, nextM, accepted>>

Sync == (~Quiet \/ ~pup) /\ \E order \in Orders : SyncWith(order)

Next ==
    \/ \E t \in Topics, a \in PubAliases, full \in BOOLEAN : Pub(t, a, full)
    \/ \E f \in Filters : Sub(f) \/ Unsub(f)
    \/ Sync
    \/ Reconnect
Spec == Init /\ [][Next]_vars

(***************************************************************************)
(* Properties (C01 "with the original topic", C20 "with the same topic")   *)
(***************************************************************************)
\* what the subscribing user sees is the topic the message was accepted on
OutOriginal == \A d \in delivered : d[1] = d[2]
\* what the broker accepts is what the publishing user meant (an empty topic with an alias that means nothing is refused)
InOriginal == \A d \in accepted : d[1] = d[2]
\* the broker never uses an alias S did not allow, and never makes the client give up
NoFlags == flags = {}
\* the broker's table of P and the user's agree
TablesAgree == ptab = utab
=============================================================================
