---------------------------- MODULE MC_RouterTrace ----------------------------
EXTENDS RouterTrace
MT == INSTANCE MqttTopic
TTopics == {<<"a", "/", "b">>, <<"a", "/", "c">>, <<"$", "x">>, <<"b">>}
TPlain == {<<"a", "/", "b">>, <<"a", "/", "+">>, <<"#">>, <<"b">>, <<"a", "/", "c">>}
TFilters == TPlain \cup {<<"$share/", "g", "/", "a", "/", "b">>, <<"$share/", "h", "/", "a", "/", "b">>, <<"$share/", "g", "/", "a", "/", "c">>,
                          <<"$share/", "g", "/", "a", "/", "+">>}
TMatch == {<<t, f>> \in TTopics \X TFilters : MT!Matches(t, f)}
TNoWill == [n \in Nets |-> NOMSG]
TNetCid == [n \in Nets |-> "c1"]
TClean == [n \in Nets |-> TRUE]
=============================================================================
