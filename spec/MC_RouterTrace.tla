---------------------------- MODULE MC_RouterTrace ----------------------------
EXTENDS RouterTrace
MT == INSTANCE MqttTopic
TTopics == {<<"a", "/", "b">>, <<"a", "/", "c">>, <<"$", "x">>, <<"b">>}
TFilters == {<<"a", "/", "b">>, <<"a", "/", "+">>, <<"#">>, <<"b">>, <<"a", "/", "c">>}
TMatch == {<<t, f>> \in TTopics \X TFilters : MT!Matches(t, f)}
TNoWill == [n \in Nets |-> NOMSG]
TNetCid == [n \in Nets |-> "c1"]
TClean == [n \in Nets |-> TRUE]
=============================================================================
