------------------------------ MODULE CommitLog ------------------------------
(***************************************************************************)
(* The broker's in-memory commit log (rumqttd/src/segments), C13.          *)
(*                                                                         *)
(* A log value is a record                                                 *)
(*   [segs |-> sequence of segments [abs |-> absolute offset of its first  *)
(*                                   entry, sizes |-> sizes of its entries]*)
(*    head, tail |-> segment numbers of the first / the active segment,    *)
(*    lim  |-> maximum number of segments kept (including the active one), *)
(*    cap  |-> segment size at which the active segment is rolled]         *)
(* so that Router.tla can keep one log per filter.  An entry is identified *)
(* by its absolute offset (the number of entries appended before it).      *)
(*                                                                         *)
(* LogAppend/Readv transcribe the implementation (CommitLog::append,          *)
(* apply_retention, CommitLog::readv, Segment::readv) step by step,        *)
(* including the places where it would panic (result kind "Panic").        *)
(* AbsRead is the property-level meaning of a read.                        *)
(***************************************************************************)
EXTENDS Naturals, Sequences, FiniteSets

NewLog(cap, lim) ==
    [segs |-> << [abs |-> 0, sizes |-> <<>>] >>, head |-> 0, tail |-> 0, lim |-> lim, cap |-> cap]

RECURSIVE Sum(_)
Sum(s) == IF s = <<>> THEN 0 ELSE Head(s) + Sum(Tail(s))

Active(L) == L.segs[Len(L.segs)]
SegEnd(seg) == seg.abs + Len(seg.sizes)
Total(L) == SegEnd(Active(L))          \* number of entries ever appended
First(L) == L.segs[1].abs              \* absolute offset of the oldest retained entry
NextOffset(L) == <<L.tail, Total(L)>>  \* CommitLog::next_offset
Seg(L, s) == L.segs[s - L.head + 1]    \* segment number s, L.head <= s <= L.tail

\* apply_retention: roll when the active segment reached the size limit; drop the oldest
\* segment when the number of segments reached the limit.
Retain(L) ==
    IF Sum(Active(L).sizes) >= L.cap
      THEN LET full == Len(L.segs) >= L.lim
               kept == IF full THEN Tail(L.segs) ELSE L.segs
           IN  [L EXCEPT !.segs = Append(kept, [abs |-> Total(L), sizes |-> <<>>]),
                         !.head = IF full THEN @ + 1 ELSE @,
                         !.tail = @ + 1]
      ELSE L

\* CommitLog::append; the implementation returns NextOffset of the result
LogAppend(L, size) ==
    LET R == Retain(L)
        n == Len(R.segs)
    IN  [R EXCEPT !.segs[n].sizes = Append(@, size)]

(***************************************************************************)
(* Reads.  A cursor is <<segment number, absolute offset>>.  The result is *)
(* [kind, start, end, out] with out a sequence of entry tags <<seg, abs>>. *)
(***************************************************************************)
\* Segment::readv
SegRead(seg, c, len) ==
    IF c[2] < seg.abs THEN [panic |-> TRUE, more |-> FALSE, off |-> 0, items |-> <<>>]
    ELSE
    LET idx == c[2] - seg.abs
        n   == Len(seg.sizes)
    IN  IF idx >= n THEN [panic |-> FALSE, more |-> FALSE, off |-> SegEnd(seg), items |-> <<>>]
        ELSE IF idx + len >= n
               THEN [panic |-> FALSE, more |-> FALSE, off |-> SegEnd(seg),
                     items |-> [k \in 1..(n - idx) |-> <<c[1], c[2] + k - 1>>]]
               ELSE [panic |-> FALSE, more |-> TRUE, off |-> seg.abs + idx + len,
                     items |-> [k \in 1..len |-> <<c[1], c[2] + k - 1>>]]

Res(kind, start, end, out) == [kind |-> kind, start |-> start, end |-> end, out |-> out]

RECURSIVE Walk(_, _, _, _, _)
Walk(L, start, c, len, out) ==
    IF c[1] - L.head + 1 > Len(L.segs) THEN Res("Panic", start, c, out)     \* self.segments[idx]
    ELSE
    LET seg == Seg(L, c[1]) IN
    IF c[1] < L.tail
      THEN LET r == SegRead(seg, c, len) IN
           IF r.panic THEN Res("Panic", start, c, out)
           ELSE IF r.more THEN Res("Next", start, <<c[1], r.off>>, out \o r.items)
           ELSE LET len2 == IF r.off >= c[2] THEN len - (r.off - c[2]) ELSE len
                    c2   == <<c[1] + 1, r.off>>
                IN  IF len2 = 0 THEN Res("Next", start, c2, out \o r.items)
                    ELSE Walk(L, start, c2, len2, out \o r.items)
      ELSE IF SegEnd(seg) <= c[2] THEN Res("Done", start, c, out)
           ELSE LET r == SegRead(seg, c, len) IN
                IF r.panic THEN Res("Panic", start, c, out)
                ELSE Res(IF r.more THEN "Next" ELSE "Done", start, <<c[1], r.off>>, out \o r.items)

\* CommitLog::readv
Readv(L, c0, len) ==
    IF c0[1] > L.tail THEN Res("Done", c0, c0, <<>>)
    ELSE LET c1 == IF c0[1] < L.head THEN <<L.head, First(L)>> ELSE c0
             sg == Seg(L, c1[1])
             c2 == IF sg.abs > c1[2] THEN <<c1[1], sg.abs>> ELSE c1
         IN  Walk(L, c2, c2, len, <<>>)

(***************************************************************************)
(* Property-level meaning (C13).                                           *)
(***************************************************************************)
\* segment number holding the retained entry with absolute offset a
SegOf(L, a) == CHOOSE s \in L.head..L.tail : Seg(L, s).abs <= a /\ a < SegEnd(Seg(L, s))

Stale(L, c) == c[1] < L.head
\* a cursor the log can have issued: it names a position inside (or at the end of) a retained
\* segment, or a segment that has been discarded since
WellFormed(L, c) ==
    \/ Stale(L, c)
    \/ /\ c[1] \in L.head..L.tail
       /\ Seg(L, c[1]).abs <= c[2]
       /\ c[2] <= SegEnd(Seg(L, c[1]))

\* the position a well-formed cursor stands for
Pos(L, c) == IF Stale(L, c) THEN First(L) ELSE c[2]

LMin(a, b) == IF a < b THEN a ELSE b

\* what a read must return: the retained entries at or after the position, at most len, in
\* append order, each with its own offset
AbsOut(L, c, len) ==
    LET p == Pos(L, c)
        n == LMin(len, Total(L) - p)
    IN  [k \in 1..n |-> <<SegOf(L, p + k - 1), p + k - 1>>]

ReadOk(L, c, len) ==
    LET r == Readv(L, c, len)
        p == Pos(L, c)
        n == LMin(len, Total(L) - p)
    IN  /\ r.kind \in {"Next", "Done"}
        /\ r.out = AbsOut(L, c, len)
        /\ WellFormed(L, r.end) /\ ~Stale(L, r.end) /\ Pos(L, r.end) = p + n   \* continuation resumes exactly there
        /\ (r.kind = "Done") <=> (p + n = Total(L))                            \* caught up iff nothing remains
        /\ r.start = (IF Stale(L, c) THEN <<L.head, First(L)>> ELSE c)

\* structural invariants of a log value
LogOk(L) ==
    /\ Len(L.segs) >= 1 /\ Len(L.segs) <= L.lim
    /\ L.tail = L.head + Len(L.segs) - 1
    /\ \A i \in 1..(Len(L.segs) - 1) : SegEnd(L.segs[i]) = L.segs[i + 1].abs     \* contiguous
    /\ \A i \in 1..(Len(L.segs) - 1) : Len(L.segs[i].sizes) > 0                   \* only the active one may be empty
=============================================================================
