-------------------------------- MODULE Router --------------------------------
(***************************************************************************)
(* rumqttd routing core (rumqttd/src/router) together with the link        *)
(* side of every connection (link/local.rs, the part of link/remote.rs     *)
(* that talks to the router).                                              *)
(*                                                                         *)
(* One record variable `R` holds the state owned by the router thread; the *)
(* operators EvConnect / EvDeviceData / EvDisconnect / EvReady /           *)
(* EvPublishWill / Consume transcribe Router::events and Router::consume   *)
(* as functions R -> R (one per critical section; a batch of packets is    *)
(* folded packet by packet exactly like handle_device_payload does).       *)
(* `nets` holds, per network connection, what link and router share (the   *)
(* two buffers behind their mutexes and the doorbell channel) plus the     *)
(* link's own state; `chan` is the router's event channel.                 *)
(*                                                                         *)
(* A modelled unwrap/expect/index/assert that would fire sets R.panicked.  *)
(* Ghost state (what has been forwarded for which subscription, what was   *)
(* accepted, which acks are owed) lives in the separate variable `G`.      *)
(***************************************************************************)
EXTENDS Integers, Sequences, FiniteSets, TLC

CONSTANTS
    Nets,           \* network connections (link tasks) that may ever exist
    MaxConn,        \* RouterConfig.max_connections = capacity of the slabs
    MaxInflight,    \* iobufs::MAX_INFLIGHT        (code: 100, scaled build: 3)
    MaxChan,        \* router::MAX_CHANNEL_CAPACITY (code: 200, scaled build: 4)
    MaxSched,       \* router::MAX_SCHEDULE_ITERATIONS (code: 100, scaled build: 2)
    OutBatch,       \* RouterConfig.max_outgoing_packet_count
    MatchRel,       \* set of <<topic, filter>> pairs that match (computed with MqttTopic!Matches)
    Strategy,       \* RouterConfig.shared_subscriptions_strategy: "RoundRobin" | "Random" | "Sticky"
    RFix            \* repairs applied to the router code (fix: commits in /repo); {} = the code as pinned.
                    \* "ready_unknown": Ready/Shadow for a removed id is ignored (was: panic); Ready only wakes a Busy tracker
                    \* "unsuback_one":  exactly one UNSUBACK per UNSUBSCRIBE (was: one per filter actually removed, none otherwise)
                    \* "unsub_notifs":  unsubscribe also drops the request from `notifications`
                    \* "resume_submap": subscriptions of a resumed session are registered in subscription_map again
                    \* "group_bufferfull": the shared group (cursor, turn) is updated before the BufferFull return
                    \* "group_per_filter": shared_subscriptions is keyed by group name and filter (was: name alone)
                    \* "unsub_own_group": UNSUBSCRIBE leaves only the group of the unsubscribed shared filter (was: every group)
                    \* "unsub_shared_waiter": UNSUBSCRIBE finds the parked request by connection and path in the log of the base filter
                    \* "group_skip_unread": a member whose turn it is not is parked only when the group has nothing unread
                    \* "resume_rejoin": a resumed persistent session joins the groups of its shared subscriptions again
                    \* "group_member_once": (not applied) a repeated SUBSCRIBE does not add the client to the group again

NONE == "none"
Ids == 0..(MaxConn - 1)

\* ---- shared subscriptions ($share/<group>/<filter>) ---------------------------
\* a shared filter path is the sequence <<"$share/", group, "/", ...filter symbols>>; everything that concerns the commit
\* log (filter index, log, waiters, retransmission map) is keyed by the base filter, everything that concerns the
\* subscription (subscription_map, Connection.subscriptions, DataRequest.filter) by the full path
IsShared(f) == Len(f) >= 4 /\ f[1] = "$share/"
Base(f) == IF IsShared(f) THEN SubSeq(f, 4, Len(f)) ELSE f
\* key of the group in Router.shared_subscriptions: the group name alone (the code as pinned), or name + filter
GroupKey(f) == IF "group_per_filter" \in RFix THEN SubSeq(f, 2, Len(f)) ELSE <<f[2]>>
NOGROUP == [has |-> FALSE, clients |-> <<>>, turn |-> 0, cursor |-> 0]
\* SharedGroup::remove_client (the group is dropped by the caller when it becomes empty)
GroupRemove(g, cid) ==
    IF ~g.has THEN g
    ELSE LET cl == SelectSeq(g.clients, LAMBDA x : x # cid) IN
         IF cl = <<>> THEN NOGROUP ELSE [g EXCEPT !.clients = cl, !.turn = g.turn % Len(cl)]
GroupCurrent(g) == IF g.turn < Len(g.clients) THEN g.clients[g.turn + 1] ELSE NONE

Matches(t, f) == <<t, f>> \in MatchRel

\* ---- values ----------------------------------------------------------------
\* message as published: m = unique id (the payload), empty = empty payload
Msg(m, topic, q, retain, empty) == [m |-> m, topic |-> topic, q |-> q, retain |-> retain, empty |-> empty]
NOMSG == [m |-> 0, topic |-> NONE, q |-> 0, retain |-> FALSE, empty |-> FALSE]

\* packets link -> router
PPublish(msg, id) == [t |-> "publish", id |-> id, msg |-> msg, fs |-> <<>>]
PSub(id, fs)      == [t |-> "subscribe", id |-> id, msg |-> NOMSG, fs |-> fs]      \* fs: sequence of <<filter, qos>>
PUnsub(id, fs)    == [t |-> "unsubscribe", id |-> id, msg |-> NOMSG, fs |-> fs]    \* fs: sequence of <<filter, 0>>
PAck(kind, id)    == [t |-> kind, id |-> id, msg |-> NOMSG, fs |-> <<>>]           \* puback pubrec pubrel pubcomp
PPing             == [t |-> "pingreq", id |-> 0, msg |-> NOMSG, fs |-> <<>>]
PDisc             == [t |-> "disconnect", id |-> 0, msg |-> NOMSG, fs |-> <<>>]

\* notifications router -> link
NFwd(msg, q, id, f) == [t |-> "forward", kind |-> f, id |-> id, m |-> msg.m, topic |-> msg.topic, q |-> q, retain |-> msg.retain, codes |-> <<>>]
NAck(kind, id, codes) == [t |-> "ack", kind |-> kind, id |-> id, m |-> 0, topic |-> NONE, q |-> 0, retain |-> FALSE, codes |-> codes]
NUnsched == [t |-> "unschedule", kind |-> NONE, id |-> 0, m |-> 0, topic |-> NONE, q |-> 0, retain |-> FALSE, codes |-> <<>>]
NDisc    == [t |-> "disconnect", kind |-> NONE, id |-> 0, m |-> 0, topic |-> NONE, q |-> 0, retain |-> FALSE, codes |-> <<>>]

\* data request (router::DataRequest)
Req(f, q, cursor, retained) == [f |-> f, q |-> q, cursor |-> cursor, retained |-> retained]

NOCONN == [live |-> FALSE]
Conn(net, cid, clean) ==
    [live |-> TRUE, net |-> net, cid |-> cid, clean |-> clean,
     subs |-> {},                \* Connection.subscriptions
     status |-> "Busy",          \* Tracker.status: Ready | Busy | InflightFull | Caughtup
     reqs |-> <<>>,              \* Tracker.data_requests
     inflight |-> <<>>,          \* Outgoing.inflight_buffer: <<pkid, filter, cursor or -1>>
     lastPkid |-> 0,
     pubrels |-> <<>>,           \* Outgoing.unacked_pubrels
     acks |-> <<>>,              \* AckLog.committed
     recorded |-> <<>>]          \* AckLog.recorded (QoS 2 publishes waiting for their PUBREL)

NOGRAVE == [has |-> FALSE, state |-> FALSE, reqs |-> <<>>, subs |-> {}, pubrels |-> <<>>]

\* ---- shared link/router state per network connection ------------------------
NetInit == [phase |-> "idle",     \* idle | connecting | up | closed
            id |-> 0, cid |-> NONE, clean |-> TRUE, will |-> NOMSG,
            ibuf |-> <<>>,         \* Incoming.buffer
            obuf |-> <<>>,         \* Outgoing.data_buffer
            tokens |-> 0,          \* doorbell channel (Outgoing.handle), capacity MaxChan
            held |-> FALSE]        \* the router still holds Outgoing (doorbell sender alive)

VARIABLES R, nets, chan, G
vars == <<R, nets, chan, G>>

RInit(filters, topics, cids) ==
    [conns |-> [i \in Ids |-> NOCONN],
     free |-> <<>>,              \* slab free list (LIFO)
     nextKey |-> 0,
     connMap |-> [c \in cids |-> -1],
     subMap |-> [f \in filters |-> {}],
     created |-> <<>>,           \* filters that have a commit log, in creation order (= filter index order)
     logs |-> [f \in filters |-> <<>>],
     waiters |-> [f \in filters |-> <<>>],      \* <<id, request>>
     notifs |-> <<>>,            \* Router.notifications
     readyq |-> <<>>,
     retained |-> [t \in topics |-> NOMSG],
     wills |-> [c \in cids |-> NOMSG],
     grave |-> [c \in cids |-> NOGRAVE],
     unsubNow |-> {},            \* ghost: <<client id, filter>> unsubscribed in the router step that led to this state
     groups |-> [k \in {GroupKey(f) : f \in {x \in filters : IsShared(x)}} |-> NOGROUP],   \* Router.shared_subscriptions
     panicked |-> FALSE]

\* ---- small helpers ----------------------------------------------------------
Panic(r) == [r EXCEPT !.panicked = TRUE]
Live(r, id) == id \in Ids /\ r.conns[id].live
\* handle.try_send(()).ok(): fails silently when the channel is full or the link dropped its receiver
Ring(st, n) == [st EXCEPT ![n].tokens = IF st[n].phase \in {"closed", "done"} THEN @ ELSE IF @ < MaxChan THEN @ + 1 ELSE @]
RingN(st, n, k) == [st EXCEPT ![n].tokens = IF st[n].phase \in {"closed", "done"} THEN @ ELSE IF @ + k < MaxChan THEN @ + k ELSE MaxChan]
RECURSIVE SeqToSet(_)
SeqToSet(s) == IF s = <<>> THEN {} ELSE {Head(s)} \cup SeqToSet(Tail(s))

\* a state of the whole router step: router record + shared nets (buffers are pushed by the router too)
St(r, st) == [r |-> r, nets |-> st]

(***************************************************************************)
(* Scheduler                                                               *)
(***************************************************************************)
\* Tracker::try_ready + Scheduler::reschedule; unknown id: unwrap panics
Reschedule(r, id, reason) ==
    IF ~Live(r, id) THEN Panic(r)
    ELSE LET c == r.conns[id]
             wake == CASE reason = "Init"        -> c.status # "Ready"
                       [] reason = "Ready"       -> IF "ready_unknown" \in RFix THEN c.status = "Busy" ELSE c.status # "Ready"
                       [] reason = "NewFilter"   -> c.status = "Caughtup"
                       [] reason = "FreshData"   -> c.status = "Caughtup"
                       [] reason = "IncomingAck" -> c.status \in {"Caughtup", "InflightFull"}
             \* debug_assert!(status == Paused(Busy)) for Init and Ready (debug builds)
             assertFails == /\ c.status \in {"Caughtup", "InflightFull"}
                            /\ (reason = "Init" \/ (reason = "Ready" /\ "ready_unknown" \notin RFix))
         IN  IF assertFails THEN Panic(r)
             ELSE IF wake THEN [r EXCEPT !.conns[id].status = "Ready", !.readyq = Append(@, id)]
             ELSE r

Track(r, id, req) == IF ~Live(r, id) THEN Panic(r) ELSE [r EXCEPT !.conns[id].reqs = Append(@, req)]

\* Scheduler::pause: assert_eq!(readyqueue.pop_back(), Some(id))
Pause(r, id, reason) ==
    IF r.readyq = <<>> \/ r.readyq[Len(r.readyq)] # id THEN Panic(r)
    ELSE [r EXCEPT !.readyq = SubSeq(@, 1, Len(@) - 1), !.conns[id].status = reason]

(***************************************************************************)
(* append_to_commitlog: retained bookkeeping, append to the log of every   *)
(* matching filter (in some order: HashMap iteration), waiters of those    *)
(* filters move to `notifications`.                                        *)
(***************************************************************************)
RECURSIVE AppendTo(_, _, _)
AppendTo(r, msg, fseq) ==
    IF fseq = <<>> THEN r
    ELSE LET f == Head(fseq) IN
         AppendTo([r EXCEPT !.logs[f] = Append(@, msg),
                            !.notifs = @ \o r.waiters[f],
                            !.waiters[f] = <<>>], msg, Tail(fseq))

\* all orders in which the matching filters can be visited
Perms(S) == {p \in [1..Cardinality(S) -> S] : \A i, j \in 1..Cardinality(S) : i # j => p[i] # p[j]}

AppendResults(r, msg0) ==
    LET r1 == IF msg0.empty THEN [r EXCEPT !.retained[msg0.topic] = NOMSG]
              ELSE IF msg0.retain THEN [r EXCEPT !.retained[msg0.topic] = msg0]
              ELSE r
        msg == [msg0 EXCEPT !.retain = FALSE]
        fs == {f \in SeqToSet(r.created) : Matches(msg.topic, f)}
    IN  {AppendTo(r1, msg, p) : p \in Perms(fs)}

\* while let Some((id, request)) = notifications.pop_front(): track + reschedule(FreshData)
RECURSIVE WakeNotifs(_)
WakeNotifs(r) ==
    IF r.notifs = <<>> \/ r.panicked THEN r
    ELSE LET e == Head(r.notifs)
             r1 == [r EXCEPT !.notifs = Tail(@)]
         IN  WakeNotifs(Reschedule(Track(r1, e[1], e[2]), e[1], "FreshData"))

(***************************************************************************)
(* handle_disconnection                                                    *)
(***************************************************************************)
\* VecDeque::swap_remove_back(k): the last element takes the place of element k
SwapRemove(w, k) == IF k = Len(w) THEN SubSeq(w, 1, Len(w) - 1)
                    ELSE [i \in 1..(Len(w) - 1) |-> IF i = k THEN w[Len(w)] ELSE w[i]]
\* Waiters::remove(id): returns [rest, out]
RECURSIVE RemoveAll(_, _, _)
RemoveAll(w, id, out) ==
    LET idx == {i \in 1..Len(w) : w[i][1] = id} IN
    IF idx = {} THEN [rest |-> w, out |-> out]
    ELSE LET k == CHOOSE i \in idx : \A j \in idx : i <= j IN
         RemoveAll(SwapRemove(w, k), id, Append(out, w[k][2]))
\* retransmission_map: per filter the cursor of the first inflight entry that has one
RetxCursor(inflight, f) ==
    LET idx == {i \in 1..Len(inflight) : inflight[i][2] = f /\ inflight[i][3] >= 0} IN
    IF idx = {} THEN -1 ELSE inflight[CHOOSE i \in idx : \A j \in idx : i <= j][3]

\* st: shared nets; reason TRUE = a Disconnect notification is pushed first
Disconnection(s, id, withReason) ==
    LET r == s.r IN
    IF ~Live(r, id) THEN s                              \* "no-connection id is already gone"
    ELSE
    LET c == r.conns[id]
        n == c.net
        st1 == IF withReason THEN Ring([s.nets EXCEPT ![n].obuf = Append(@, NDisc)], n) ELSE s.nets
        st2 == [st1 EXCEPT ![n].held = FALSE]               \* Outgoing dropped: doorbell sender gone
        \* DataLog::clean: per filter in index order, Waiters::remove(id) (position + swap_remove_back, repeatedly)
        rm == [f \in DOMAIN r.waiters |-> RemoveAll(r.waiters[f], id, <<>>)]
        RECURSIVE Flat(_)
        Flat(fq) == IF fq = <<>> THEN <<>> ELSE rm[Head(fq)].out \o Flat(Tail(fq))
        parkedReqs == Flat(r.created)
        rewind(req) == IF RetxCursor(c.inflight, Base(req.f)) >= 0 THEN [req EXCEPT !.cursor = RetxCursor(c.inflight, Base(req.f))] ELSE req
        saved == [i \in 1..Len(c.reqs \o parkedReqs) |-> rewind((c.reqs \o parkedReqs)[i])]
        \* the client leaves every group (a group without members is dropped) ...
        groups1 == [k \in DOMAIN r.groups |-> GroupRemove(r.groups[k], c.cid)]
        \* ... and, for a persistent session, the cursor of every group that still exists is set back to the oldest
        \* unacknowledged forward of this connection on the request's filter (request by request)
        RECURSIVE Rewind(_, _)
        Rewind(gs, reqs) ==
            IF reqs = <<>> THEN gs
            ELSE LET q == Head(reqs) k == RetxCursor(c.inflight, Base(q.f)) IN
                 IF IsShared(q.f) /\ k >= 0 /\ gs[GroupKey(q.f)].has
                   THEN Rewind([gs EXCEPT ![GroupKey(q.f)].cursor = k], Tail(reqs))
                   ELSE Rewind(gs, Tail(reqs))
        groups2 == IF c.clean THEN groups1 ELSE Rewind(groups1, c.reqs \o parkedReqs)
        r1 == [r EXCEPT !.conns[id] = NOCONN,
                        !.free = <<id>> \o @,
                        !.connMap[c.cid] = -1,
                        !.waiters = [f \in DOMAIN @ |-> rm[f].rest],
                        !.subMap = [f \in DOMAIN @ |-> IF f \in c.subs THEN @[f] \ {id} ELSE @[f]],
                        !.groups = groups2,
                        !.grave[c.cid] = IF c.clean THEN [NOGRAVE EXCEPT !.has = TRUE]
                                         ELSE [has |-> TRUE, state |-> TRUE, reqs |-> saved, subs |-> c.subs, pubrels |-> c.pubrels]]
    IN  St(r1, st2)

(***************************************************************************)
(* handle_new_connection                                                   *)
(***************************************************************************)
EvConnect(s, n) ==
    LET nt == s.nets[n]
        cid == nt.cid
        r0 == s.r
        \* same client id live: the old connection is removed first
        s1 == IF r0.connMap[cid] >= 0 THEN Disconnection(s, r0.connMap[cid], FALSE) ELSE s
        r == s1.r
        live == Cardinality({i \in Ids : r.conns[i].live})
    IN
    IF live >= MaxConn
      THEN St(r, s1.nets)              \* "no space for new connection": event dropped (link sees the doorbell closed)
    ELSE
    LET id == IF r.free # <<>> THEN Head(r.free) ELSE r.nextKey
        g == r.grave[cid]
        resume == ~nt.clean /\ g.has /\ g.state
        c0 == Conn(n, cid, nt.clean)
        c1 == IF resume THEN [c0 EXCEPT !.subs = g.subs, !.reqs = g.reqs, !.pubrels = g.pubrels] ELSE c0
        acks == <<NAck("connack", IF resume THEN 1 ELSE 0, <<>>)>> \o
                (IF resume THEN [i \in 1..Len(g.pubrels) |-> NAck("pubrel", g.pubrels[i], <<>>)] ELSE <<>>)
        c2 == [c1 EXCEPT !.acks = acks]
        r1 == [r EXCEPT !.conns[id] = c2,
                        !.free = IF r.free # <<>> THEN Tail(@) ELSE @,
                        !.nextKey = IF r.free # <<>> THEN @ ELSE @ + 1,
                        !.connMap[cid] = id,
                        !.subMap = IF "resume_submap" \in RFix THEN [f \in DOMAIN @ |-> IF f \in c2.subs THEN @[f] \cup {id} ELSE @[f]] ELSE @,
                        !.grave[cid] = NOGRAVE,                       \* graveyard.retrieve removes the entry
                        !.wills[cid] = IF nt.will # NOMSG THEN nt.will ELSE @]
        \* "resume_rejoin": a resumed session joins the groups of its shared subscriptions again (as pinned it stays
        \* outside: its request is tracked, but it is never the member whose turn it is)
        RECURSIVE Rejoin(_, _)
        Rejoin(gs, reqs) ==
            IF reqs = <<>> THEN gs
            ELSE LET q == Head(reqs) IN
                 IF ~IsShared(q.f) THEN Rejoin(gs, Tail(reqs))
                 ELSE LET k == GroupKey(q.f)
                          g0 == IF gs[k].has THEN gs[k] ELSE [NOGROUP EXCEPT !.has = TRUE, !.cursor = q.cursor]
                      IN  Rejoin([gs EXCEPT ![k] = [g0 EXCEPT !.clients = Append(@, cid)]], Tail(reqs))
        r1b == IF resume /\ "resume_rejoin" \in RFix THEN [r1 EXCEPT !.groups = Rejoin(@, c2.reqs)] ELSE r1
        r2 == Reschedule(r1b, id, "Init")
    IN  St(r2, [s1.nets EXCEPT ![n].id = id, ![n].held = TRUE])

(***************************************************************************)
(* handle_device_payload: the batch is taken out of the shared buffer and  *)
(* handled packet by packet; flags are applied at the end.                 *)
(***************************************************************************)
\* carry: [r, force, newdata, disc, stop]
Carry(r, force, newdata, disc, stop) == [r |-> r, force |-> force, newdata |-> newdata, disc |-> disc, stop |-> stop]

QosCode(q) == q

\* one SUBSCRIBE filter (prepare_filter); returns r
SubOne(r, id, f, q) ==
    LET b == Base(f)
        isNewLog == b \notin SeqToSet(r.created)
        r1 == IF isNewLog THEN [r EXCEPT !.created = Append(@, b)] ELSE r
        cursor == Len(r1.logs[b])
        r2 == [r1 EXCEPT !.subMap[f] = @ \cup {id}]
        cid == r.conns[id].cid
        \* shared_subscriptions.entry(group).or_insert(SharedGroup::new(cursor, strategy)).add_client(client_id): the
        \* client is added on every SUBSCRIBE, also when it is a member already (as pinned)
        r3 == IF ~IsShared(f) THEN r2
              ELSE LET k == GroupKey(f)
                       g0 == IF r2.groups[k].has THEN r2.groups[k] ELSE [NOGROUP EXCEPT !.has = TRUE, !.cursor = cursor]
                       g1 == IF "group_member_once" \in RFix /\ \E i \in 1..Len(g0.clients) : g0.clients[i] = cid THEN g0
                             ELSE [g0 EXCEPT !.clients = Append(@, cid)]
                   IN  [r2 EXCEPT !.groups[k] = g1]
    IN  IF f \in r3.conns[id].subs THEN r3
        ELSE Reschedule(Track([r3 EXCEPT !.conns[id].subs = @ \cup {f}], id, Req(f, q, cursor, ~IsShared(f))), id, "NewFilter")

RECURSIVE SubAll(_, _, _, _)
\* returns [r, codes, bad]; a "$"-filter (not $share) is refused: disconnect, remaining filters skipped
SubAll(r, id, fs, codes) ==
    IF fs = <<>> THEN [r |-> r, codes |-> codes, bad |-> FALSE]
    ELSE LET f == Head(fs)[1] q == Head(fs)[2] IN
         IF f[1] = "$" THEN [r |-> r, codes |-> codes, bad |-> TRUE]
         ELSE SubAll(SubOne(r, id, f, q), id, Tail(fs), Append(codes, QosCode(q)))

\* one UNSUBSCRIBE filter
UnsubOne(r, id, f) ==
    IF f \notin DOMAIN r.subMap \/ id \notin r.subMap[f] THEN [r |-> r, acked |-> FALSE]
    ELSE LET r1 == [r EXCEPT !.subMap[f] = @ \ {id}] IN
         IF f \notin r1.conns[id].subs THEN [r |-> r1, acked |-> FALSE]
         ELSE LET cid == r.conns[id].cid
                  \* as pinned: the client leaves *every* group, whichever filter it unsubscribes; "unsub_own_group": only
                  \* the group of the filter it unsubscribes
                  groups1 == [k \in DOMAIN r1.groups |->
                                IF "unsub_own_group" \in RFix /\ ~(IsShared(f) /\ k = GroupKey(f)) THEN r1.groups[k]
                                ELSE GroupRemove(r1.groups[k], cid)]
                  \* remove_waiters_for_id(id, filter): looks the *path* up in filter_indexes (as pinned: a $share path
                  \* is not there, nothing is removed) and removes the first parked entry of this id whatever its filter;
                  \* "unsub_shared_waiter": the log of the base filter is searched for the entry of this id and path
                  wkey == Base(f)
                  w == r1.waiters[wkey]
                  idx == IF "unsub_shared_waiter" \in RFix THEN {i \in 1..Len(w) : w[i][1] = id /\ w[i][2].f = f}
                         ELSE IF IsShared(f) THEN {} ELSE {i \in 1..Len(w) : w[i][1] = id}
              IN
              [r |-> [r1 EXCEPT !.conns[id].subs = @ \ {f},
                                !.conns[id].reqs = SelectSeq(@, LAMBDA q : q.f # f),        \* untrack
                                !.unsubNow = @ \cup {<<cid, f>>},
                                !.groups = groups1,
                                !.waiters[wkey] = IF idx = {} THEN w
                                                  ELSE SwapRemove(w, CHOOSE i \in idx : \A j \in idx : i <= j)],
               acked |-> TRUE]

RECURSIVE UnsubAll(_, _, _, _, _)
UnsubAll(r, id, pkid, fs, force) ==
    IF fs = <<>> THEN [r |-> r, force |-> force]
    ELSE LET u == UnsubOne(r, id, Head(fs)[1])
             r0 == IF u.acked /\ "unsub_notifs" \in RFix
                     THEN [u.r EXCEPT !.notifs = SelectSeq(@, LAMBDA e : ~(e[1] = id /\ e[2].f = Head(fs)[1]))] ELSE u.r
             r1 == IF u.acked /\ "unsuback_one" \notin RFix THEN [r0 EXCEPT !.conns[id].acks = Append(@, NAck("unsuback", pkid, <<>>))] ELSE r0
         IN  UnsubAll(r1, id, pkid, Tail(fs), force \/ u.acked)

\* Outgoing::register_ack: pop the head; it must carry this id
RegisterAck(c, pkid) ==
    IF c.inflight = <<>> THEN [ok |-> FALSE, c |-> c]
    ELSE [ok |-> Head(c.inflight)[1] = pkid, c |-> [c EXCEPT !.inflight = Tail(@)]]

\* the set of possible carries after one packet (a set because of AppendResults)
Packet(cy, id, p) ==
    LET r == cy.r c == r.conns[id] IN
    CASE p.t = "publish" ->
           IF p.msg.q = 2
             THEN {[cy EXCEPT !.r = [r EXCEPT !.conns[id].recorded = Append(@, p.msg),
                                              !.conns[id].acks = Append(@, NAck("pubrec", p.id, <<>>))],
                              !.force = TRUE]}
             ELSE LET r1 == IF p.msg.q = 1 THEN [r EXCEPT !.conns[id].acks = Append(@, NAck("puback", p.id, <<>>))] ELSE r
                  IN  {[cy EXCEPT !.r = x, !.force = (cy.force \/ p.msg.q = 1), !.newdata = TRUE] : x \in AppendResults(r1, p.msg)}
      [] p.t = "subscribe" ->
           LET sr == SubAll(r, id, p.fs, <<>>)
               r1 == [sr.r EXCEPT !.conns[id].acks = Append(@, NAck("suback", p.id, sr.codes))]
           IN  {[cy EXCEPT !.r = r1, !.force = TRUE, !.disc = (cy.disc \/ sr.bad)]}          \* no break after a refused filter
      [] p.t = "unsubscribe" ->
           LET u == UnsubAll(r, id, p.id, p.fs, cy.force) IN
           IF "unsuback_one" \in RFix
             THEN {[cy EXCEPT !.r = [u.r EXCEPT !.conns[id].acks = Append(@, NAck("unsuback", p.id, <<>>))], !.force = TRUE]}
             ELSE {[cy EXCEPT !.r = u.r, !.force = u.force]}
      [] p.t = "puback" ->
           LET a == RegisterAck(c, p.id) IN
           IF ~a.ok THEN {[cy EXCEPT !.r = [r EXCEPT !.conns[id] = a.c], !.disc = TRUE, !.stop = TRUE]}
           ELSE {[cy EXCEPT !.r = Reschedule([r EXCEPT !.conns[id] = a.c], id, "IncomingAck")]}
      [] p.t = "pubrec" ->
           LET a == RegisterAck(c, p.id) IN
           IF ~a.ok THEN {[cy EXCEPT !.r = [r EXCEPT !.conns[id] = a.c], !.disc = TRUE, !.stop = TRUE]}
           ELSE {[cy EXCEPT !.r = Reschedule([r EXCEPT !.conns[id] = [a.c EXCEPT !.pubrels = Append(@, p.id),
                                                                               !.acks = Append(@, NAck("pubrel", p.id, <<>>))]],
                                              id, "IncomingAck")]}
      [] p.t = "pubrel" ->
           \* the PUBCOMP is queued, then the *front* of `recorded` is appended (not looked up by id)
           LET r1 == [r EXCEPT !.conns[id].acks = Append(@, NAck("pubcomp", p.id, <<>>))] IN
           IF c.recorded = <<>> THEN {[cy EXCEPT !.r = r1, !.disc = TRUE, !.stop = TRUE]}
           ELSE LET msg == Head(c.recorded)
                    r2 == [r1 EXCEPT !.conns[id].recorded = Tail(@)]
                IN  {[cy EXCEPT !.r = Reschedule(x, id, "IncomingAck"), !.newdata = TRUE] : x \in AppendResults(r2, msg)}
      [] p.t = "pubcomp" ->
           IF c.pubrels = <<>> \/ Head(c.pubrels) # p.id
             THEN {[cy EXCEPT !.r = [r EXCEPT !.conns[id].pubrels = IF @ = <<>> THEN @ ELSE Tail(@)], !.disc = TRUE, !.stop = TRUE]}
             ELSE {[cy EXCEPT !.r = [r EXCEPT !.conns[id].pubrels = Tail(@)]]}
      [] p.t = "pingreq" ->
           {[cy EXCEPT !.r = [r EXCEPT !.conns[id].acks = Append(@, NAck("pingresp", 0, <<>>))], !.force = TRUE]}
      [] p.t = "disconnect" ->
           {[cy EXCEPT !.r = [r EXCEPT !.wills[c.cid] = NOMSG], !.disc = TRUE, !.stop = TRUE]}
      [] OTHER -> {cy}

RECURSIVE Batch(_, _, _)
Batch(cys, id, ps) ==
    IF ps = <<>> THEN cys
    ELSE Batch(UNION {IF cy.stop \/ cy.r.panicked THEN {cy} ELSE Packet(cy, id, Head(ps)) : cy \in cys}, id, Tail(ps))

\* the set of possible results of handle_device_payload(id)
EvDeviceData(s, id) ==
    IF ~Live(s.r, id) THEN {s}                     \* "no-connection id is already gone"
    ELSE LET n == s.r.conns[id].net
             ps == s.nets[n].ibuf
             st1 == [s.nets EXCEPT ![n].ibuf = <<>>]
             ends == Batch({Carry(s.r, FALSE, FALSE, FALSE, FALSE)}, id, ps)
             finish(cy) ==
                 LET r1 == IF cy.force /\ ~cy.r.panicked THEN Reschedule(cy.r, id, "FreshData") ELSE cy.r
                     r2 == IF cy.newdata THEN WakeNotifs(r1) ELSE r1
                 IN  IF cy.disc /\ ~r2.panicked THEN Disconnection(St(r2, st1), id, FALSE) ELSE St(r2, st1)
         IN  {finish(cy) : cy \in ends}

EvDisconnect(s, id) == Disconnection(s, id, FALSE)
EvReady(s, id) == IF "ready_unknown" \in RFix /\ ~Live(s.r, id) THEN s ELSE St(Reschedule(s.r, id, "Ready"), s.nets)

\* handle_last_will
EvPublishWill(s, cid) ==
    IF s.r.wills[cid] = NOMSG THEN {s}
    ELSE LET w == s.r.wills[cid]
             r1 == [s.r EXCEPT !.wills[cid] = NOMSG]
         IN  {St(WakeNotifs(x), s.nets) : x \in AppendResults(r1, w)}

(***************************************************************************)
(* consume(): one scheduling turn                                          *)
(***************************************************************************)
\* push_forwards for QoS > 0: ids lastPkid+1.. cyclic in 1..MaxInflight
RECURSIVE PushQ(_, _, _, _, _)
\* returns [c, out]
PushQ(c, msgs, q, f, out) ==
    IF msgs = <<>> THEN [c |-> c, out |-> out]
    ELSE LET e == Head(msgs)                      \* <<msg, cursor or -1>>
             pk == c.lastPkid + 1
             c1 == [c EXCEPT !.lastPkid = IF pk = MaxInflight THEN 0 ELSE pk,
                             !.inflight = Append(@, <<pk, Base(f), e[2]>>)]     \* keyed by filter index
         IN  PushQ(c1, Tail(msgs), q, f, Append(out, NFwd(e[1], q, pk, f)))

\* forward_device_data for one request: result [status, req, c, obuf, rung]
RetainedFor(r, f) == {r.retained[t] : t \in {t \in DOMAIN r.retained : r.retained[t] # NOMSG /\ Matches(t, f)}}
SeqsOf(S) == IF S = {} THEN {<<>>} ELSE {p \in [1..Cardinality(S) -> S] : \A i, j \in 1..Cardinality(S) : i # j => p[i] # p[j]}

Forward(r, id, req0, obuf) ==
    LET c == r.conns[id]
        gk == IF IsShared(req0.f) THEN GroupKey(req0.f) ELSE <<>>
        grouped == IsShared(req0.f) /\ r.groups[gk].has            \* request.group names a group that exists
        grp == IF grouped THEN r.groups[gk] ELSE NOGROUP
        \* the request adopts the group's cursor
        req == IF grouped THEN [req0 EXCEPT !.cursor = grp.cursor] ELSE req0
        slotsA == IF req.q # 0 THEN MaxInflight - Len(c.inflight) ELSE OutBatch
        slots0 == IF grouped /\ Strategy = "RoundRobin" THEN 1 ELSE slotsA      \* one message per turn
        log == r.logs[Base(req.f)]
    IN
    IF req.q # 0 /\ slotsA = 0 THEN {[status |-> "InflightFull", req |-> req, c |-> c, obuf |-> obuf, rang |-> 0, groups |-> r.groups]}
    ELSE
    UNION {
        LET ret == IF req.retained THEN SubSeq(rs, 1, IF Len(rs) < slots0 THEN Len(rs) ELSE slots0) ELSE <<>>
            slots == slots0 - Len(ret)
            avail == Len(log) - req.cursor
            n == IF avail < slots THEN avail ELSE slots
            caughtup == req.cursor + slots >= Len(log)          \* Position::Done
            next == req.cursor + n
            msgs == [i \in 1..Len(ret) |-> <<ret[i], -1>>] \o [i \in 1..n |-> <<log[req.cursor + i], req.cursor + i - 1>>]
            req1 == [req EXCEPT !.cursor = next, !.retained = FALSE]
            \* not this member's turn: nothing is forwarded, the request (with the adopted cursor) is parked when the read
            \* reached the end of the log, otherwise set aside for this scheduling turn
            skip == grouped /\ GroupCurrent(grp) # c.cid
            \* after a forward: the turn moves on and the group cursor follows the request
            turns == CASE Strategy = "RoundRobin" -> {(grp.turn + 1) % Len(grp.clients)}
                       [] Strategy = "Random"     -> 0..(Len(grp.clients) - 1)
                       [] OTHER                   -> {grp.turn}
            after == IF grouped THEN {[r.groups EXCEPT ![gk].turn = t, ![gk].cursor = next] : t \in turns} ELSE {r.groups}
        IN
        \* as pinned the request is parked when the read reached the end of the log, although the messages it read are
        \* still unread by the group: if the member whose turn it is leaves, nobody is woken. "group_skip_unread": parked
        \* only when there is nothing to read
        IF skip THEN {[status |-> IF (IF "group_skip_unread" \in RFix THEN msgs = <<>> ELSE caughtup) THEN "FilterCaughtup" ELSE "SkipRequest", req |-> [req EXCEPT !.retained = FALSE], c |-> c, obuf |-> obuf, rang |-> 0, groups |-> r.groups]}
        ELSE IF msgs = <<>> THEN {[status |-> "FilterCaughtup", req |-> req1, c |-> c, obuf |-> obuf, rang |-> 0, groups |-> r.groups]}
        ELSE LET pq == IF req.q = 0
                         THEN [c |-> c, out |-> [i \in 1..Len(msgs) |-> NFwd(msgs[i][1], 0, 0, req.f)]]
                         ELSE PushQ(c, msgs, req.q, req.f, <<>>)
                 ob == obuf \o pq.out
             IN  IF Len(ob) >= MaxChan - 1
                   \* as pinned the function returns before the group is updated: the group cursor stays behind the
                   \* request; "group_bufferfull": the group is updated first
                   THEN {[status |-> "BufferFull", req |-> req1, c |-> pq.c, obuf |-> Append(ob, NUnsched), rang |-> 1, groups |-> gs]
                          : gs \in (IF "group_bufferfull" \in RFix THEN after ELSE {r.groups})}
                   ELSE {[status |-> IF caughtup THEN "FilterCaughtup" ELSE "PartialRead", req |-> req1, c |-> pq.c, obuf |-> ob, rang |-> 1, groups |-> gs]
                          : gs \in after}
      : rs \in (IF req.retained THEN SeqsOf(RetainedFor(r, req.f)) ELSE {<<>>}) }

\* the request loop: carry [r, reqs (remaining), obuf, rang, iter, done]
RECURSIVE Loop(_, _, _)
Loop(cy, id, n) ==
    \* cy: [r, reqs, skipped, obuf, rang]; returns a set of [r, obuf, rang]
    IF cy.r.panicked THEN {[r |-> cy.r, obuf |-> cy.obuf, rang |-> cy.rang]}
    ELSE IF n = 0
      THEN \* iterations used up: requests go back to the tracker, connection stays Ready
           {[r |-> [cy.r EXCEPT !.conns[id].reqs = @ \o cy.reqs \o cy.skipped], obuf |-> cy.obuf, rang |-> cy.rang]}
    ELSE IF cy.reqs = <<>>
      THEN \* nothing left: caught up, unless requests were set aside (they go back; the connection stays Ready)
           {[r |-> IF cy.skipped = <<>> THEN Pause(cy.r, id, "Caughtup") ELSE [cy.r EXCEPT !.conns[id].reqs = @ \o cy.skipped],
             obuf |-> cy.obuf, rang |-> cy.rang]}
    ELSE UNION {
           LET r1 == [cy.r EXCEPT !.conns[id] = fw.c, !.groups = fw.groups] IN
           CASE fw.status = "BufferFull" ->
                  {[r |-> Pause([r1 EXCEPT !.conns[id].reqs = @ \o Append(Tail(cy.reqs), fw.req) \o cy.skipped], id, "Busy"),
                    obuf |-> fw.obuf, rang |-> cy.rang + fw.rang]}
             [] fw.status = "InflightFull" ->
                  {[r |-> Pause([r1 EXCEPT !.conns[id].reqs = @ \o Append(Tail(cy.reqs), fw.req) \o cy.skipped], id, "InflightFull"),
                    obuf |-> fw.obuf, rang |-> cy.rang]}
             [] fw.status = "FilterCaughtup" ->
                  Loop([r |-> [r1 EXCEPT !.waiters[Base(fw.req.f)] = Append(@, <<id, fw.req>>)], reqs |-> Tail(cy.reqs), skipped |-> cy.skipped,
                        obuf |-> fw.obuf, rang |-> cy.rang + fw.rang], id, n - 1)
             [] fw.status = "PartialRead" ->
                  Loop([r |-> r1, reqs |-> Append(Tail(cy.reqs), fw.req), skipped |-> cy.skipped, obuf |-> fw.obuf, rang |-> cy.rang + fw.rang], id, n - 1)
             [] fw.status = "SkipRequest" ->
                  Loop([r |-> r1, reqs |-> Tail(cy.reqs), skipped |-> Append(cy.skipped, fw.req), obuf |-> fw.obuf, rang |-> cy.rang], id, n - 1)
         : fw \in Forward(cy.r, id, Head(cy.reqs), cy.obuf) }

Consume(s) ==
    LET r == s.r IN
    IF r.readyq = <<>> THEN {s}
    ELSE LET id == Head(r.readyq)
             r0 == [r EXCEPT !.readyq = Tail(@)]
         IN  IF ~Live(r0, id) THEN {St(r0, s.nets)}              \* poll() returns None for a removed tracker
             ELSE
             LET c == r0.conns[id]
                 n == c.net
                 r1 == [r0 EXCEPT !.readyq = Append(@, id), !.conns[id].reqs = <<>>, !.conns[id].acks = <<>>]
                 \* ack_device_data: flush all acks, ring if there were any
                 ob0 == s.nets[n].obuf \o c.acks
                 rang0 == IF c.acks # <<>> THEN 1 ELSE 0
             IN  { St(x.r, RingN([s.nets EXCEPT ![n].obuf = x.obuf], n, x.rang))
                   : x \in Loop([r |-> r1, reqs |-> c.reqs, skipped |-> <<>>, obuf |-> ob0, rang |-> rang0], id, MaxSched) }

=============================================================================
