------------------------------ MODULE MC_Router ------------------------------
(* TLC instances of RouterSys: topic/filter universe, match relation computed   *)
(* with MqttTopic!Matches, and state constraints.                               *)
EXTENDS RouterSys

MT == INSTANCE MqttTopic

T_ab == <<"a", "/", "b">>
T_ac == <<"a", "/", "c">>
T_dx == <<"$", "x">>
F_ab == <<"a", "/", "b">>
F_ap == <<"a", "/", "+">>
F_h  == <<"#">>
F_ac == <<"a", "/", "c">>

MCTopics == {T_ab, T_ac}
MCFilters == {F_ab, F_ap}
MCMatch == {<<t, f>> \in MCTopics \X MCFilters : MT!Matches(t, f)}

\* c1 alternates: n1 persistent, n3 clean, n4 persistent
MCMixed1 == [n \in Nets |-> n \in {"n2", "n3"}]
MCTopics1 == {T_ab}
MCFilters1 == {F_ab}

\* richer universe for generated schedules: overlapping literal / + / # filters and a $-topic
MCTopics3 == {T_ab, T_ac, T_dx}
MCFilters3 == {F_ab, F_ap, F_h}
MCMatch3 == {<<t, f>> \in MCTopics3 \X MCFilters3 : MT!Matches(t, f)}

\* shared subscriptions: one group on a/b; two groups; one group name on two filters
F_sab == <<"$share/", "g", "/", "a", "/", "b">>
F_hab == <<"$share/", "h", "/", "a", "/", "b">>
F_sac == <<"$share/", "g", "/", "a", "/", "c">>
MCFiltersS1 == {F_ab, F_sab}
MCSubS1 == {F_sab}
MCMatchS1 == {<<t, f>> \in MCTopics1 \X MCFiltersS1 : MT!Matches(t, f)}
MCFiltersS2 == {F_ab, F_ac, F_sab, F_sac}
MCSubS2 == {F_sab, F_sac}
MCMatchS2 == {<<t, f>> \in MCTopics \X MCFiltersS2 : MT!Matches(t, f)}
MCSubS1p == {F_sab, F_ab}
MCNet3Cid == [n \in Nets |-> CASE n = "n1" -> "c1" [] n = "n2" -> "c2" [] n = "n3" -> "c3" [] OTHER -> "c1"]
MCPersistent12 == [n \in Nets |-> ~(n \in {"n1", "n2"})]
MCPersistent124 == [n \in Nets |-> ~(n \in {"n1", "n2", "n4"})]
MCPersistent14 == [n \in Nets |-> ~(n \in {"n1", "n4"})]

MCNoWill == [n \in Nets |-> NOMSG]
\* n1 registers a will on a/b (QoS as published, not retained); n3 a retained will
MCWill1 == [n \in Nets |-> IF n = "n1" THEN Msg(901, T_ab, 0, FALSE, FALSE) ELSE IF n = "n3" THEN Msg(903, T_ab, 1, TRUE, FALSE) ELSE NOMSG]
\* every net has its own client id (no takeover)
MCNetCidOwn == [n \in Nets |-> CASE n = "n1" -> "c1" [] n = "n2" -> "c2" [] OTHER -> "c3"]
\* net k belongs to client k (n1 -> c1, ...); n3 reuses c1 (reconnect / takeover)
MCNetCid == [n \in Nets |-> CASE n = "n1" -> "c1" [] n = "n2" -> "c2" [] n = "n3" -> "c1" [] n = "n4" -> "c1" [] OTHER -> "c2"]
MCAllClean == [n \in Nets |-> TRUE]
MCPersistent1 == [n \in Nets |-> ~(MCNetCid[n] = "c1")]      \* c1 connects with clean session off

ChanBound == Len(chan) <= 4 /\ \A n \in Nets : Len(nets[n].ibuf) <= 2

(* Liveness under fairness. The bounds on the event channel and the link buffers are part of the next-state relation   *)
(* here (back-pressure), not a state constraint, so that ENABLED and the explored graph agree. Weakly fair: the router  *)
(* thread (events, scheduling turns), every link task and every client (it reads, acknowledges and releases what it got; *)
(* its own requests are bounded by the budgets MaxPub / MaxSubOps / MaxCloses). Then the system comes to rest: from some *)
(* point on the router is idle and every client is done - and QuiescentComplete (an invariant) says nothing is owed.    *)
LiveNext == Next /\ ChanBound'
FairSpec == /\ Init /\ [][LiveNext]_vars
            /\ WF_vars(REvent /\ ChanBound') /\ WF_vars(RConsume /\ ChanBound')
            /\ \A n \in Nets : WF_vars(Link(n) /\ ChanBound') /\ WF_vars(Client(n) /\ ChanBound')
\* negative control: without fairness of the scheduling turns the properties below must fail (they are not vacuous)
UnfairSpec == /\ Init /\ [][LiveNext]_vars
              /\ WF_vars(REvent /\ ChanBound')
              /\ \A n \in Nets : WF_vars(Link(n) /\ ChanBound') /\ WF_vars(Client(n) /\ ChanBound')
ComesToRest == <>[]Quiescent
EveryAckArrives == \A n \in Nets : [](G.owed[n] # <<>> => <>(G.owed[n] = <<>> \/ nets[n].phase # "up" \/ ~nets[n].held))
=============================================================================
