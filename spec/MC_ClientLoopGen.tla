--------------------------- MODULE MC_ClientLoopGen ---------------------------
EXTENDS ClientLoop, Json
(* Stimulus scripts for the conformance harness (client_loop): simulation of the same  *)
(* model with the stimuli recorded.                                                     *)
VARIABLE stim
GenInit == Init /\ stim = <<>>
GenNext ==
    /\ ~s.panicked
    /\ \/ UserRequest /\ stim' = Append(stim, [op |-> "user", pk |-> chan'[Len(chan')]])
       \/ BrokerSend /\ stim' = Append(stim, [op |-> "broker", pk |-> inbuf'[Len(inbuf')]])
       \/ Connect /\ stim' = Append(stim, [op |-> "connect", sp |-> resumed', rm |-> IF Version = 5 THEN s'.maxOut ELSE 0])
       \/ (PollRequest \/ PollNetwork \/ Keepalive) /\ stim' = Append(stim, [op |-> "poll"])
       \/ Fail /\ stim' = stim \o <<[op |-> "fail"], [op |-> "poll"]>>
GenSpec == GenInit /\ [][GenNext]_<<vars, stim>>
CONSTANT EmitAt
EmitScript == (TLCGet("level") = EmitAt) => PrintT(<<"SCRIPT", ToJson(stim)>>)
=============================================================================
