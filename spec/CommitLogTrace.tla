--------------------------- MODULE CommitLogTrace ---------------------------
(* Trace validation for C13: events recorded from the real CommitLog           *)
(* (harness: commitlog trace) are checked against the property-level meaning   *)
(* of CommitLog.tla.  The roll policy is not prescribed: the trace logs        *)
(* head/tail after every append and the spec only demands what the property    *)
(* demands (bounded number of segments, only whole oldest segments dropped,    *)
(* reads return exactly the retained suffix, continuation, caught-up flag).    *)
EXTENDS CommitLog, TLC, Json, IOUtils

Rec == ndJsonDeserialize(IOEnv.TRACE)

VARIABLES L, l
vars == <<L, l>>

Ev == Rec[l]
IsEvent(e) == l <= Len(Rec) /\ Ev.ev = e /\ l' = l + 1

TraceInit == l = 1 /\ L = NewLog(4, 1)

TNew == IsEvent("new") /\ L' = NewLog(Ev.cap, Ev.lim)

TAppend ==
    /\ IsEvent("append")
    /\ LET rolled  == Ev.tail = L.tail + 1
           dropped == Ev.head = L.head + 1
           s1 == IF dropped THEN Tail(L.segs) ELSE L.segs
           s2 == IF rolled THEN Append(s1, [abs |-> Total(L), sizes |-> <<>>]) ELSE s1
           n  == Len(s2)
           s3 == [s2 EXCEPT ![n].sizes = Append(@, Ev.size)]
       IN  /\ Ev.tail \in {L.tail, L.tail + 1}
           /\ Ev.head \in {L.head, L.head + 1}
           /\ n >= 1 /\ n <= L.lim                         \* retention bound
           /\ L' = [L EXCEPT !.segs = s3, !.head = Ev.head, !.tail = Ev.tail]
           /\ LogOk(L')
           /\ Ev.ret = NextOffset(L')

TRead ==
    /\ IsEvent("read")
    /\ UNCHANGED L
    /\ LET r == Ev.res
           c == Ev.c
       IN  /\ r.kind \in {"Next", "Done"}
           /\ IF WellFormed(L, c)
                THEN LET p == Pos(L, c)
                         n == LMin(Ev.len, Total(L) - p)
                     IN  /\ r.out = AbsOut(L, c, Ev.len)
                         /\ \A k \in 1..Len(r.out) : r.ids[k] = r.out[k][2]      \* the entry itself, not only its tag
                         /\ WellFormed(L, r.end) /\ ~Stale(L, r.end) /\ Pos(L, r.end) = p + n
                         /\ (r.kind = "Done") <=> (p + n = Total(L))
                ELSE \A k \in 1..Len(r.out) : r.out[k][2] >= First(L) /\ r.out[k][2] < Total(L)

TraceNext == TNew \/ TAppend \/ TRead
TraceSpec == TraceInit /\ [][TraceNext]_vars

\* accepted iff every line was consumed
TraceAccepted ==
    LET d == TLCGet("stats").diameter IN
    IF d - 1 = Len(Rec) THEN TRUE
    ELSE Print(<<"TRACE-REJECTED at line", d, IF d <= Len(Rec) THEN Rec[d] ELSE "eof">>, FALSE)
=============================================================================
