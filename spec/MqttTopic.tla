----------------------------- MODULE MqttTopic -----------------------------
(***************************************************************************)
(* MQTT topic names and topic filters (C12).                               *)
(*                                                                         *)
(* A string is a sequence of symbols; a symbol is a one-character TLA+     *)
(* string.  "U" stands for an arbitrary multi-byte UTF-8 character (the    *)
(* conformance harness substitutes several).  The operators below are the  *)
(* MQTT rules plus the documented rule of this code base that a topic      *)
(* whose first character is "$" is matched by no filter.  They are reused  *)
(* by Router.tla for the broker's match relation.                          *)
(***************************************************************************)
EXTENDS Naturals, Sequences, FiniteSets

RECURSIVE SplitAcc(_, _, _)
SplitAcc(s, cur, acc) ==
    IF s = <<>> THEN Append(acc, cur)
    ELSE IF Head(s) = "/" THEN SplitAcc(Tail(s), <<>>, Append(acc, cur))
    ELSE SplitAcc(Tail(s), Append(cur, Head(s)), acc)

\* Levels of a topic or filter: split at every "/", empty levels are kept,
\* the result is never the empty sequence (Levels(<<>>) = << <<>> >>).
Levels(s) == SplitAcc(s, <<>>, <<>>)

Has(l, c) == \E i \in 1..Len(l) : l[i] = c

HasWildcards(s) == Has(s, "+") \/ Has(s, "#")

\* Topic names contain no wildcard characters.
ValidTopic(s) == ~HasWildcards(s)

\* Wildcards in filters only as whole levels, "#" only as the last level.
ValidFilter(s) ==
    /\ s # <<>>
    /\ LET L == Levels(s) IN
         \A i \in 1..Len(L) :
            /\ Has(L[i], "#") => (L[i] = <<"#">> /\ i = Len(L))
            /\ Has(L[i], "+") => (L[i] = <<"+">>)

Dollar(t) == t # <<>> /\ t[1] = "$"

RECURSIVE MatchLevels(_, _)
MatchLevels(ts, fs) ==
    IF fs = <<>> THEN ts = <<>>
    ELSE IF Head(fs) = <<"#">> THEN TRUE            \* "#" = parent and any number of levels
    ELSE IF ts = <<>> THEN FALSE
    ELSE IF Head(fs) = <<"+">> THEN MatchLevels(Tail(ts), Tail(fs))   \* exactly one level
    ELSE Head(ts) = Head(fs) /\ MatchLevels(Tail(ts), Tail(fs))       \* literal, case-sensitive

\* Meaningful for ValidTopic(t) /\ ValidFilter(f).
Matches(t, f) == ~Dollar(t) /\ MatchLevels(Levels(t), Levels(f))

(***************************************************************************)
(* An independent, declarative statement of the same relation; TLC checks  *)
(* that both agree on every valid pair (MC_MqttTopic).                     *)
(***************************************************************************)
MatchesDecl(t, f) ==
    LET T == Levels(t)
        F == Levels(f)
        n == Len(F)
        LevelOk(i) == F[i] = <<"+">> \/ F[i] = T[i]
    IN  /\ ~Dollar(t)
        /\ IF F[n] = <<"#">>
             THEN Len(T) >= n - 1 /\ \A i \in 1..(n - 1) : LevelOk(i)
             ELSE Len(T) = n /\ \A i \in 1..n : LevelOk(i)

\* All strings over S of length at most n
RECURSIVE StrUpTo(_, _)
StrUpTo(S, n) ==
    IF n = 0 THEN {<<>>}
    ELSE LET P == StrUpTo(S, n - 1)
         IN  P \cup {Append(p, c) : p \in {q \in P : Len(q) = n - 1}, c \in S}

RECURSIVE Flat(_)
Flat(s) == IF s = <<>> THEN "" ELSE Head(s) \o Flat(Tail(s))
=============================================================================
