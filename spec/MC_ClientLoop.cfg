CONSTANTS
  Version = 4
  N = 2
  ManualAcks = FALSE
  Fix = {"pubcomp_collision", "clean_collision", "rel_id_reuse", "clean_order", "clean_start_rotation", "replay_window", "pkid_wrap", "ack_failure"}
  GateFix = TRUE
  MaxMsgs = 3
  ChanCap = 1
  MaxFails = 1
  MaxBroker = 2
  QoSs = {1, 2}
  Subs = FALSE
SPECIFICATION Spec
CONSTRAINT Bound
VIEW ViewC02
INVARIANTS NoPanic NoLoss NoLostRelease
CHECK_DEADLOCK FALSE
