-------------------------------- MODULE Framing --------------------------------
(***************************************************************************)
(* MQTT framing as a decoder state machine over a byte stream (C05).       *)
(*                                                                         *)
(* The stream is fed in chunks; after every chunk the decoder is called    *)
(* until it asks for more bytes.  What a call may do is determined by the  *)
(* fixed header alone:                                                     *)
(*   fewer than 2 bytes buffered, or a remaining-length field whose        *)
(*   continuation bits run to the end of the buffer (< 4 length bytes)     *)
(*                                         -> NeedMore, nothing consumed   *)
(*   4 length bytes all with the continuation bit  -> Error                *)
(*   remaining length > max                        -> Error                *)
(*   declared frame longer than what is buffered   -> NeedMore, nothing    *)
(*                                                    consumed             *)
(*   otherwise the call yields a Packet, consuming exactly the declared    *)
(*   frame, or an Error (the content is malformed), consuming no more than *)
(*   the declared frame.  It never asks for more.                          *)
(* Which of Packet/Error it is depends on the frame's bytes only, so the   *)
(* sequence of packets is the same for every chunking (checked by          *)
(* comparing the decoders' outputs over all chunkings of the same string). *)
(***************************************************************************)
EXTENDS Integers, Sequences

\* hdr: the first (up to 5) buffered bytes; n: number of buffered bytes; max: maximum packet size (0 = unlimited)
LenBytes(hdr) == SubSeq(hdr, 2, Len(hdr))                 \* bytes after the first header byte (at most 4)

RECURSIVE VarLen(_, _)
\* [done, value, used]: decodes a variable byte integer from bs
VarLen(bs, k) ==
    IF bs = <<>> THEN [done |-> FALSE, value |-> 0, used |-> 0]
    ELSE LET b == Head(bs) r == VarLen(Tail(bs), k + 1) IN
         IF b < 128 THEN [done |-> TRUE, value |-> b, used |-> 1]
         ELSE [done |-> r.done, value |-> (b - 128) + 128 * r.value, used |-> 1 + r.used]

Header(hdr, n) ==
    LET lb == SubSeq(LenBytes(hdr), 1, IF n - 1 < 4 THEN n - 1 ELSE 4)
        v == VarLen(lb, 1)
    IN  IF n < 2 THEN [k |-> "need"]
        ELSE IF ~v.done THEN (IF Len(lb) >= 4 THEN [k |-> "badlen"] ELSE [k |-> "need"])
        ELSE [k |-> "frame", remaining |-> v.value, frame |-> 1 + v.used + v.value]

\* what a decoder call with this buffer may answer: outcome in {"packet", "need", "error"}, consumed bytes
CallOk(hdr, n, max, outcome, consumed) ==
    LET h == Header(hdr, n) IN
    CASE h.k = "need"   -> outcome = "need" /\ consumed = 0
      [] h.k = "badlen" -> outcome = "error"
      [] h.k = "frame"  ->
           IF max > 0 /\ h.remaining > max THEN outcome = "error" /\ consumed <= n
           ELSE IF h.frame > n THEN outcome = "need" /\ consumed = 0
           ELSE \/ outcome = "packet" /\ consumed = h.frame
                \/ outcome = "error" /\ consumed <= h.frame
=============================================================================
