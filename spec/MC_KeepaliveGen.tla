--------------------------- MODULE MC_KeepaliveGen ---------------------------
(* Schedules for the keep-alive harness: the broker's reply delays chosen along a behaviour. *)
EXTENDS Keepalive, TLC, Json
VARIABLE delays
GenInit == Init /\ delays = <<>>
GenNext == /\ Next
           /\ delays' = IF ping' /\ now' # now
                          THEN Append(delays, IF await' = FALSE THEN 0 ELSE IF due' = NEVER THEN NEVER ELSE due' - now')
                          ELSE delays
GenSpec == GenInit /\ [][GenNext]_<<vars, delays>>
Emit == (now = Horizon \/ phase = "timedout" \/ (phase = "failed" /\ nconn = MaxConns)) =>
           PrintT(<<"SCHED", ToJson([stall |-> (stall /\ nconn = 1), delays |-> delays, horizon |-> Horizon, conns |-> MaxConns, traffic |-> <<2, 3, 7>>])>>)
=============================================================================
