---------------------------- MODULE MC_AliasTrace ----------------------------
EXTENDS AliasTrace
MT == INSTANCE MqttTopic
Sym == [x \in {"a/b", "a/c", "a/+", "#"} |->
          CASE x = "a/b" -> <<"a", "/", "b">> [] x = "a/c" -> <<"a", "/", "c">> [] x = "a/+" -> <<"a", "/", "+">> [] OTHER -> <<"#">>]
MCTopics == {"a/b", "a/c"}
MCFilters == {"a/b", "a/+", "#"}
MCMatch == {<<t, f>> \in MCTopics \X MCFilters : MT!Matches(Sym[t], Sym[f])}
=============================================================================
