CONSTANTS
  Topics <- MCTopics
  Filters <- MCFilters
  MatchRel <- MCMatch
  AMax = 2
  BMax = 4096
  PubAliases = {}
  AFix = {"alias_per_topic"}
  Strict = TRUE
SPECIFICATION TraceSpec
INVARIANTS OutOriginal InOriginal NoFlags TablesAgree
CONSTRAINT Progress
POSTCONDITION TraceAccepted
CHECK_DEADLOCK FALSE
