CONSTANTS
  Nets = {"n1", "n2", "n3"}
  MaxConn = 2
  MaxInflight = 3
  MaxChan = 4
  MaxSched = 2
  OutBatch = 2
  MatchRel <- MCMatch
  RFix = {"ready_unknown", "unsuback_one", "unsub_notifs", "resume_submap", "group_bufferfull", "group_per_filter", "unsub_own_group", "unsub_shared_waiter", "group_skip_unread", "resume_rejoin"}
  CIDs = {"c1", "c2"}
  Topics <- MCTopics
  Filters <- MCFilters
  SubFilters <- MCFilters
  Strategy = "RoundRobin"
  NetCid <- MCNetCid
  NetClean <- MCAllClean
  NetWill <- MCNoWill
  SubQoS = {0, 1, 2}
  PubQoS = {0, 1, 2}
  PubRetain = {FALSE}
  Subscribers = {"n1", "n3"}
  Publishers = {"n2"}
  Adversaries = {}
  MaxPub = 8
  MaxSubOps = 4
  MaxCloses = 2
  EnUnsub = TRUE
  EnPing = TRUE
  EnDisconnect = TRUE
  PubEmpty = {FALSE}
  EnStale = FALSE
  EmitAt = 40
SPECIFICATION GenSpec
INVARIANTS EmitScript
CHECK_DEADLOCK FALSE
