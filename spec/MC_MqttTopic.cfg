CONSTANTS MaxLen = 3 NRand = 2000
INIT Init
NEXT Next
INVARIANTS DeclAgrees HashAll Literal DollarNone PlusGeneralises SelfMatch WildcardsAreFilterOnly
CHECK_DEADLOCK FALSE
