--------------------------- MODULE MC_MqttTopic ---------------------------
(* TLC driver for MqttTopic: (1) checks algebraic laws of the relation on   *)
(* every (topic, filter) pair up to MaxLen, (2) writes the expected answers *)
(* as test vectors for the conformance harness (one JSON record per string).*)
EXTENDS MqttTopic, TLC, Json, IOUtils, SequencesExt

CONSTANT MaxLen
Sym == {"a", "b", "/", "+", "#", "$", "U"}
Strs == StrUpTo(Sym, MaxLen)

VARIABLES t, f
Init == t \in Strs /\ f \in Strs
Next == UNCHANGED <<t, f>>

Valid == ValidTopic(t) /\ ValidFilter(f)

\* the two definitions agree
DeclAgrees == Valid => (Matches(t, f) <=> MatchesDecl(t, f))
\* "#" alone matches every topic except "$"-topics
HashAll == (ValidTopic(t) /\ f = <<"#">>) => (Matches(t, f) <=> ~Dollar(t))
\* a filter without wildcards matches exactly itself
Literal == (Valid /\ ~HasWildcards(f)) => (Matches(t, f) <=> (t = f /\ ~Dollar(t)))
\* "$"-topics are matched by nothing
DollarNone == (Valid /\ Dollar(t)) => ~Matches(t, f)
\* generalising one level of a matching filter to "+" keeps the match
PlusGeneralises ==
    (Valid /\ Matches(t, f)) =>
        \A i \in 1..Len(Levels(f)) :
            Levels(f)[i] # <<"#">> =>
                MatchLevels(Levels(t), [Levels(f) EXCEPT ![i] = <<"+">>])
\* a topic is a valid filter that matches itself (unless "$"-prefixed or empty)
SelfMatch == (ValidTopic(t) /\ t # <<>> /\ ~Dollar(t)) => (ValidFilter(t) /\ Matches(t, t))
\* validity of a filter is validity of all its levels in place
WildcardsAreFilterOnly == (ValidTopic(t) /\ t # <<>>) => ValidFilter(t)

Vectors ==
    LET VT == {s \in Strs : ValidTopic(s)}
        VF == {s \in Strs : ValidFilter(s)}
        Rec(s) == [s  |-> Flat(s),
                   vt |-> ValidTopic(s),
                   vf |-> ValidFilter(s),
                   hw |-> HasWildcards(s),
                   m  |-> IF ValidTopic(s)
                            THEN SetToSeq({Flat(g) : g \in {g \in VF : Matches(s, g)}})
                            ELSE <<>>]
    IN  SetToSeq({Rec(s) : s \in Strs})

(* Random longer pairs (seeded by TLC's -seed): a topic of up to 6 levels and a  *)
(* filter derived from it by keeping, generalising or changing levels and        *)
(* optionally cutting it with "#".                                               *)
CONSTANT NRand
TSym == {"a", "b", "U", "$"}
\* (dummy parameters keep TLC from caching these as constants)
RandLevel(x) == CHOOSE l \in {[i \in 1..n |-> RandomElement(TSym)] : n \in {RandomElement(0..2)}} : TRUE
RECURSIVE Join(_)
Join(L) == IF Len(L) = 1 THEN L[1] ELSE L[1] \o <<"/">> \o Join(Tail(L))
DeriveWith(L, cut, how) ==
    LET kept == IF cut = 0 \/ cut - 1 > Len(L) THEN Len(L) ELSE cut - 1
        Lv(i) == IF how[i] = 1 THEN <<"+">>
                 ELSE IF how[i] = 2 THEN <<"a">>
                 ELSE IF how[i] = 3 THEN L[i] \o <<"b">>
                 ELSE L[i]
    IN  Join([i \in 1..kept |-> Lv(i)] \o (IF cut = 0 THEN <<>> ELSE << <<"#">> >>))
RandPair(k) ==
    LET L    == [i \in 1..RandomElement(1..6) |-> RandLevel(i)]
        Gen  == {<<Join(Lc), DeriveWith(Lc, cut, how)>> :
                    Lc \in {L}, cut \in {RandomElement(0..7)},
                    how \in {[i \in 1..6 |-> RandomElement(1..8)]}}
    IN  CHOOSE p \in Gen : TRUE
LongVectors ==
    [k \in 1..NRand |->
        LET P == {RandPair(k)} IN
        CHOOSE r \in {[t  |-> Flat(p[1]), f |-> Flat(p[2]),
                       vt |-> ValidTopic(p[1]), vf |-> ValidFilter(p[2]),
                       m  |-> Matches(p[1], p[2]), d |-> MatchesDecl(p[1], p[2])] : p \in P} : TRUE]

ASSUME IF "OUT2" \in DOMAIN IOEnv
         THEN ndJsonSerialize(IOEnv.OUT2, LongVectors)
         ELSE TRUE

ASSUME IF "OUT" \in DOMAIN IOEnv
         THEN ndJsonSerialize(IOEnv.OUT, Vectors)
         ELSE TRUE
=============================================================================
