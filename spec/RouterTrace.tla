------------------------------ MODULE RouterTrace ------------------------------
(* Trace validation (impl -> spec) for the real rumqttd routing core.  The       *)
(* harness (router_run) steps the real Router single-threaded through the verif  *)
(* hooks and records, after every step, what the step returned and a projection  *)
(* of the router's state; every recorded step must be a step of RouterSys with   *)
(* exactly that projection.  Orders that depend on HashMap iteration in the      *)
(* implementation are nondeterministic in the specification and are resolved by  *)
(* TLC from the logged state.  All invariants of RouterSys are evaluated in      *)
(* every state of every trace.                                                   *)
EXTENDS RouterSys, Json, IOUtils

Rec == ndJsonDeserialize(IOEnv.TRACE)

\* Strict = TRUE: every recorded step must be a model step with exactly the recorded projection of the router state.
\* Strict = FALSE (second stage, only after a strict rejection): only what a link can observe must be explained by the
\* model (CONNACK and connection id, everything taken out of the outgoing buffer, whether an event was there to handle);
\* TLC infers the internal state.  The invariants are evaluated in both modes.
CONSTANT Strict
VARIABLE l
tvars == <<vars, l>>
E == Rec[l]
IsEvent(e) == l <= Len(Rec) /\ E.ev = e /\ l' = l + 1

TraceInit == Init /\ l = 1

TReset ==
    /\ IsEvent("reset")
    /\ R' = RInit(Filters, Topics, CIDs)
    /\ nets' = [n \in Nets |-> NetInit]
    /\ chan' = <<>>
    /\ G' = GInit

---------------------------------------------------------------------------
AckStr(a) == IF a.kind = "connack" THEN "connack:0" ELSE a.kind \o ":" \o ToString(a.id)

ConnMatch(pc, id) ==
    IF ~pc.live THEN ~R'.conns[id].live
    ELSE LET c == R'.conns[id] IN
         /\ c.live
         /\ c.cid = pc.cid /\ c.clean = pc.clean
         /\ c.subs = SeqToSet(pc.subs)
         /\ c.status = pc.status
         /\ c.reqs = pc.reqs
         /\ c.inflight = pc.inflight
         /\ c.lastPkid = pc.lastPkid
         /\ c.pubrels = pc.pubrels
         /\ [i \in 1..Len(c.acks) |-> AckStr(c.acks[i])] = pc.acks
         /\ Len(c.recorded) = pc.recorded
         /\ Len(nets'[c.net].ibuf) = pc.ibuf
         /\ Len(nets'[c.net].obuf) = pc.obuf
         /\ nets'[c.net].tokens = pc.tokens

ProjFull ==
    LET P == E.proj IN
    /\ \A id \in Ids : ConnMatch(P.conns[id + 1], id)
    /\ R'.readyq = P.readyq
    /\ Len(R'.created) = Len(P.filters)
    /\ \A i \in 1..Len(P.filters) :
          LET f == R'.created[i] IN
          /\ f = P.filters[i].f
          /\ Len(R'.logs[f]) = P.filters[i].len
          /\ [k \in 1..Len(R'.waiters[f]) |-> <<R'.waiters[f][k][1], R'.waiters[f][k][2].f>>] = P.filters[i].waiters
    /\ {<<c, R'.connMap[c]>> : c \in {c \in CIDs : R'.connMap[c] >= 0}} = SeqToSet(P.connMap)
    /\ \A i \in 1..Len(P.subMap) : R'.subMap[P.subMap[i][1]] = SeqToSet(P.subMap[i][2])
    /\ \A f \in Filters : R'.subMap[f] # {} => \E i \in 1..Len(P.subMap) : P.subMap[i][1] = f
    /\ {t \in Topics : R'.retained[t] # NOMSG} = SeqToSet(P.retained)
    /\ {c \in CIDs : R'.wills[c] # NOMSG} = SeqToSet(P.wills)
    /\ \A c \in CIDs :
          IF R'.grave[c].has
            THEN \E i \in 1..Len(P.grave) :
                    /\ P.grave[i].cid = c /\ P.grave[i].state = R'.grave[c].state
                    /\ P.grave[i].reqs = R'.grave[c].reqs
                    /\ SeqToSet(P.grave[i].subs) = R'.grave[c].subs
                    /\ P.grave[i].pubrels = R'.grave[c].pubrels
            ELSE \A i \in 1..Len(P.grave) : P.grave[i].cid # c
    /\ Len(R'.notifs) = P.notifs
    /\ \A i \in 1..Len(P.groups) :
          /\ P.groups[i].key \in DOMAIN R'.groups
          /\ LET g == R'.groups[P.groups[i].key] IN
             g.has /\ g.clients = P.groups[i].clients /\ g.turn = P.groups[i].turn /\ g.cursor = P.groups[i].cursor
    /\ \A k \in DOMAIN R'.groups : R'.groups[k].has => \E i \in 1..Len(P.groups) : P.groups[i].key = k
    /\ Len(chan') = P.chan

ProjMatch == ~R'.panicked /\ (Strict => ProjFull)

---------------------------------------------------------------------------
WillOf(w) == IF w.m = 0 THEN NOMSG ELSE Msg(w.m, w.topic, w.q, w.retain, FALSE)

TConnect ==
    /\ IsEvent("connect")
    /\ E.res.r = "queued"
    /\ nets' = [nets EXCEPT ![E.n] = [NetInit EXCEPT !.phase = "connecting", !.cid = E.cid, !.clean = E.clean, !.will = WillOf(E.will)]]
    /\ chan' = Append(chan, Ev("Connect", 0, E.n, E.n))
    /\ UNCHANGED <<R, G>>
    /\ ProjMatch

TFinish ==
    /\ IsEvent("finish")
    /\ IF E.res.r \in {"notyet", "noop"} THEN UNCHANGED vars
       ELSE /\ NFinish(E.n)
            /\ IF E.res.r = "dropped" THEN nets'[E.n].phase = "closed"
               ELSE nets'[E.n].phase = "up" /\ nets[E.n].id = E.res.id /\ nets[E.n].obuf[1].kind = "connack"
                    /\ nets[E.n].obuf[1].id = E.res.connack.id
    /\ ProjMatch

TPush ==
    /\ IsEvent("push")
    /\ IF E.res.r = "noop" THEN UNCHANGED vars
       ELSE /\ E.res.r = "ok"
            /\ Push(E.n, E.pk)
            /\ G' = [G EXCEPT !.owed[E.n] = @ \o Owes(E.pk)]
    /\ ProjMatch

\* observable part of a notification
Obs(x) == [t |-> x.t, id |-> x.id, m |-> x.m, topic |-> x.topic, q |-> x.q, retain |-> x.retain, codes |-> x.codes,
           kind |-> IF x.t = "ack" THEN x.kind ELSE "none"]

TDrain ==
    /\ IsEvent("drain")
    /\ IF E.res.r = "noop" THEN UNCHANGED vars
       ELSE IF nets[E.n].tokens = 0 THEN E.res.out = <<>> /\ UNCHANGED vars
       ELSE /\ NDrain(E.n)
            /\ [i \in 1..Len(nets[E.n].obuf) |-> Obs(nets[E.n].obuf[i])] = E.res.out
    /\ ProjMatch

TClose ==
    /\ IsEvent("close")
    /\ IF E.res.r = "noop" THEN UNCHANGED vars
       ELSE /\ nets[E.n].phase = "up"
            /\ nets' = [nets EXCEPT ![E.n].phase = "closed"]
            /\ chan' = Append(chan, Ev("Disconnect", nets[E.n].id, 0, E.n))
            /\ G' = [G EXCEPT !.toAck[E.n] = <<>>, !.toComp[E.n] = <<>>, !.toRel[E.n] = <<>>]
            /\ UNCHANGED R
    /\ ProjMatch

TWill ==
    /\ IsEvent("will")
    /\ chan' = Append(chan, Ev("PublishWill", 0, nets[E.n].cid, E.n))
    /\ UNCHANGED <<R, nets, G>>
    /\ ProjMatch

TRawEvent ==
    /\ IsEvent("rawevent")
    /\ chan' = Append(chan, Ev(E.kind, E.id, 0, "raw"))
    /\ UNCHANGED <<R, nets, G>>
    /\ ProjMatch

TEvent ==
    /\ IsEvent("event")
    /\ IF E.res.some THEN REvent ELSE (chan = <<>> /\ UNCHANGED vars)
    /\ ProjMatch

TConsume ==
    /\ IsEvent("consume")
    /\ IF Strict THEN (IF ~E.res.some /\ R.readyq = <<>> THEN UNCHANGED vars ELSE RConsume)
       ELSE (IF R.readyq = <<>> \/ R.panicked THEN UNCHANGED vars ELSE RConsume)
    /\ ProjMatch

\* the real router reported that it has nothing to do (the harness' idle loop stopped): in the model, too, nothing can
\* happen without a new stimulus.  (Strict: the ready queue and the channel length are compared anyway.)
TQuiet ==
    /\ IsEvent("quiet")
    /\ UNCHANGED vars
    /\ ProjMatch
    /\ (E.res.pending = 0 /\ E.res.ready = 0) => RouterStill

TraceNext == TQuiet \/ TReset \/ TConnect \/ TFinish \/ TPush \/ TDrain \/ TClose \/ TWill \/ TRawEvent \/ TEvent \/ TConsume
TraceSpec == TraceInit /\ [][TraceNext]_tvars

\* the same step properties on traces (a reset line starts a new behaviour)
IsReset == l <= Len(Rec) /\ E.ev = "reset"
OnlyOwnRemovalT == [][IsReset \/ OnlyOwnRemovalStep]_tvars
AckClosesOnlyThatT == [][IsReset \/ AckClosesOnlyThatStep]_tvars
NoCrossGenerationT == [][IsReset \/ NoCrossGenerationStep({"DeviceData", "Disconnect", "Ready", "PublishWill"})]_tvars
\* known finding (C14): a late Event::Disconnect of an ended connection removes the connection that reuses its id.
\* (A late DeviceData only makes the router look into the new connection's own buffer earlier: whatever then happens is
\* caused by that connection's own packets, so DeviceData is not part of the demand.)
NoCrossGenerationButDisconnectT == [][IsReset \/ NoCrossGenerationStep({"Ready", "PublishWill"})]_tvars

Progress == TLCSet(1, IF TLCGet(1) < l THEN l ELSE TLCGet(1))
ASSUME TLCSet(1, 0)
TraceAccepted ==
    LET d == TLCGet(1) IN
    IF d - 1 = Len(Rec) THEN TRUE
    ELSE Print(<<"TRACE-REJECTED at line", d, IF d <= Len(Rec) THEN [ev |-> Rec[d].ev, res |-> Rec[d].res, n |-> IF "n" \in DOMAIN Rec[d] THEN Rec[d].n ELSE "-"] ELSE "eof">>, FALSE)
=============================================================================
