------------------------------ MODULE MC_Alias ------------------------------
(* TLC instance of Alias.tla: topic / filter universe with the match relation computed by     *)
(* MqttTopic!Matches, bound on the number of publishes, and the stimulus recorder that turns   *)
(* simulated behaviours into scripts for the `aliases` harness.                                *)
EXTENDS Alias, Json
MT == INSTANCE MqttTopic
CONSTANTS MaxPub

Sym == [x \in {"a/b", "a/c", "a/+", "#"} |->
          CASE x = "a/b" -> <<"a", "/", "b">> [] x = "a/c" -> <<"a", "/", "c">> [] x = "a/+" -> <<"a", "/", "+">> [] OTHER -> <<"#">>]
MCTopics == {"a/b", "a/c"}
MCFilters == {"a/b", "a/+", "#"}
MCMatch == {<<t, f>> \in MCTopics \X MCFilters : MT!Matches(Sym[t], Sym[f])}
MCPubAliases == {-1, 0, 1, 2, BMax, BMax + 1}

PubBound == nextM <= MaxPub + 1

=============================================================================
