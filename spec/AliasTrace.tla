----------------------------- MODULE AliasTrace -----------------------------
(* Trace validation for the topic-alias layer (C01 / C20 "with the original topic"): every step   *)
(* recorded by the `aliases` harness - the publishing client's verdict, whether the router kept    *)
(* the publisher, the topics a plain subscriber to '#' saw the messages accepted on, the forwards  *)
(* exactly as the router put them into the subscriber's link (topic, alias) and what the real      *)
(* rumqttc client showed its user - must be a step of Alias.tla with exactly those outputs; the    *)
(* invariants of Alias.tla are evaluated in every state of the matched behaviour.                  *)
EXTENDS Alias, Json, IOUtils

CONSTANT Strict     \* TRUE: the forwards must be exactly those of Alias.tla's transcription of the broker (which alias, which topic
                    \* cleared). FALSE (second stage, after a strict rejection): the broker may choose aliases as it likes; only what
                    \* MQTT 5 demands of the alias mechanism and what the properties state is checked on the recorded forwards.
Rec == ndJsonDeserialize(IOEnv.TRACE)
VARIABLE l
tvars == <<vars, l>>
E == Rec[l]
IsEvent(e) == l <= Len(Rec) /\ E.ev = e /\ l' = l + 1

TraceInit == Init /\ l = 1

TReset ==
    /\ IsEvent("reset") /\ E.amax = AMax /\ E.bmax = BMax
    /\ pup' = TRUE /\ ptab' = EMPTY /\ utab' = EMPTY
    /\ subs' = {} /\ pend' = [f \in Filters |-> <<>>]
    /\ btab' = EMPTY /\ slab' = SLAB0 /\ ctab' = EMPTY
    /\ nextM' = 1 /\ accLog' = <<>> /\ accepted' = {} /\ delivered' = {} /\ flags' = {}

TPub ==
    /\ IsEvent("pub")
    /\ IF E.res.res = "down" THEN ~pup /\ UNCHANGED vars
       ELSE /\ E.res.m = nextM
            /\ LET r == PubResult(E.topic, E.alias, E.full) IN
               E.res.res = (IF r \in {"clienterr", "disc"} THEN r ELSE "ok")
            /\ Pub(E.topic, E.alias, E.full)

TSub == IsEvent("sub") /\ E.res.acks = 1 /\ E.res.forwards = 0 /\ ~E.res.closed /\ Sub(E.f)
TUnsub == /\ IsEvent("unsub") /\ E.res.acks = 1 /\ E.res.forwards = 0 /\ ~E.res.closed
          /\ IF E.f \in subs THEN Unsub(E.f) ELSE Quiet /\ UNCHANGED vars

TSync ==
    /\ Strict
    /\ IsEvent("sync")
    /\ ~E.res.closed
    /\ E.res.acc = accLog
    /\ \E order \in Orders :
         LET b == Batches(order, btab, slab, <<>>)
             r == Receive(b.out, ctab, <<>>)
         IN  /\ b.out = E.res.out
             /\ Seen(r.got, b.out) = E.res.seen
             /\ SyncWith(order)

\* second stage: the recorded forwards are taken as they are; every queued message must be among them once per
\* subscription (C01), and a client that follows the MQTT 5 alias rules reads them
Ms(out) == [i \in 1..Len(out) |-> out[i][1]]
Count(seq, x) == Cardinality({i \in 1..Len(seq) : seq[i] = x})
PendMs == UNION {{pend[f][i][1] : i \in 1..Len(pend[f])} : f \in Filters}
PendCount(m) == Cardinality({f \in Filters : \E i \in 1..Len(pend[f]) : pend[f][i][1] = m})
TSyncLoose ==
    /\ ~Strict
    /\ IsEvent("sync")
    /\ ~E.res.closed
    /\ E.res.acc = accLog
    /\ LET out == E.res.out
           r == Receive(out, ctab, <<>>)
       IN  /\ \A i \in 1..Len(out) : out[i][1] \in PendMs
           /\ \A m \in PendMs : Count(Ms(out), m) = PendCount(m)
           /\ ctab' = r.ctab
           /\ pend' = [f \in Filters |-> <<>>] /\ accLog' = <<>> /\ pup' = TRUE
           /\ delivered' = delivered \cup {<<Want(r.got[i][1]), r.got[i][2]>> : i \in 1..Len(r.got)}
           /\ flags' = flags \cup {"alias out of range" : i \in {i \in 1..Len(out) : out[i][3] > AMax}}
                             \cup {"client protocol error" : i \in {i \in 1..Len(r.got) : r.got[i][2] = "protoerr"}}
           /\ UNCHANGED <<ptab, utab, subs, nextM, accepted, btab, slab>>

TReconnect == IsEvent("reconnect") /\ Reconnect

TraceNext == TReset \/ TPub \/ TSub \/ TUnsub \/ TSync \/ TSyncLoose \/ TReconnect
TraceSpec == TraceInit /\ [][TraceNext]_tvars

Progress == TLCSet(1, IF TLCGet(1) < l THEN l ELSE TLCGet(1))
ASSUME TLCSet(1, 0)
TraceAccepted ==
    LET d == TLCGet(1) IN
    IF d - 1 = Len(Rec) THEN TRUE
    ELSE Print(<<"TRACE-REJECTED at line", d, IF d <= Len(Rec) THEN Rec[d] ELSE "eof">>, FALSE)
=============================================================================
