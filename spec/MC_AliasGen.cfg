CONSTANTS
  Topics <- MCTopics
  Filters <- MCFilters
  MatchRel <- MCMatch
  AMax = 2
  BMax = 4096
  PubAliases <- MCPubAliases
  AFix = {"alias_per_topic"}
  MaxPub = 1000
  EmitAt = 24
SPECIFICATION GenSpec
INVARIANTS EmitScript
CHECK_DEADLOCK FALSE
