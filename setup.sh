#!/bin/sh
# Builds the verification harness from files on disk only (offline). Run once after a fresh restore.
set -e
cd "$(dirname "$0")"
export CARGO_NET_OFFLINE=true
mkdir -p work evidence replays
python3 - <<'PY'
import sys, os
sys.path.insert(0, "lib")
import vlib
import mkmanifest
bins = sorted(set(b for c in mkmanifest.CHECKS.values() for b in c.get("bins", [])))
small = sorted(set(b for c in mkmanifest.CHECKS.values() for b in c.get("bins_small", [])))
if bins:
    vlib.build_harness(bins)
if small:
    vlib.build_harness(small, small=True)
PY
# every specification must parse
for f in spec/*.tla; do
  (cd spec && java -cp /opt/veriftools/tla/tla2tools.jar:/opt/veriftools/tla/CommunityModules-deps.jar tla2sany.SANY "$(basename "$f")" >/dev/null 2>&1) || { echo "SANY failed on $f"; exit 1; }
done
echo "setup ok"
